#!/bin/bash
# Offline setup: translate PlusCal, parse every module with SANY, make scratch directories.
set -e
cd "$(dirname "$0")"
mkdir -p work evidence
cd spec
for f in *.tla; do
  if grep -q -- '--fair algorithm\|--algorithm' "$f" && ! grep -q 'BEGIN TRANSLATION' "$f"; then
    pcal -nocfg "$f" > /dev/null
  fi
done
fail=0
for f in *.tla; do
  case "$f" in Dbg.tla) continue;; esac
  # modules for Apalache that use its own operators (Gen) are parsed by apalache-mc, whose standard module SANY does not have
  if grep -q '^EXTENDS.*Apalache' "$f"; then continue; fi
  if ! tla-sany "$f" > ../work/sany.out 2>&1 || grep -q 'Fatal errors\|\*\*\* Errors' ../work/sany.out; then
    echo "SANY failed on $f"; tail -5 ../work/sany.out; fail=1
  fi
done
exit $fail
