#!/bin/bash
# Confirm a behaviour-changing but property-preserving change ("neutral") written by a sub-agent and run checks against it.
# usage: tools/seedeval.sh <worktree> <name> <check id> [more check ids...]
# The worktree (outside /repo and /verif) has the change applied and holds _seed/{patch.diff,demo.py,meta.json}.
wt=$1; name=$2; shift 2
out=/verif/neutral/$name; mkdir -p $out
cp $wt/_seed/patch.diff $wt/_seed/demo.py $wt/_seed/meta.json $out/ 2>/dev/null
base=$(mktemp -d /tmp/seedbase.XXXX); git -C /repo archive HEAD penman tests | tar -x -C $base
tests=$(cd $wt && PYTHONPATH=$wt /venv/bin/python -m pytest -q -p no:cacheprovider tests 2>&1 | tail -1)
(cd $base && git init -q . 2>/dev/null; patch -p1 -s --dry-run < $out/patch.diff >/dev/null 2>&1) && applies=yes || applies=no
PYTHONPATH=$wt /venv/bin/python $out/demo.py >/dev/null 2>&1; with=$?
PYTHONPATH=$base /venv/bin/python $out/demo.py >/dev/null 2>&1; without=$?
echo "tests: $tests | patch applies to HEAD: $applies | demo exit with change: $with, without: $without"
res=""
for p in "$@"; do
  o=$(PENMAN_SRC=$wt /verif/check $p --tier quick 2>&1 | grep "^VIOLATION\|^MACHINERY\|^$p " | cut -c1-260)
  n=$(echo "$o" | grep -c "^VIOLATION")
  echo "$o" | sed "s/^/   [$p] /"
  res="$res $p:$n"
done
rm -rf $base
python3 - "$out" "$tests" "$applies" "$with" "$without" "$res" <<'PY'
import json,sys
out,tests,applies,w,wo,res=sys.argv[1:7]
m=json.load(open(out+'/meta.json'))
m['confirmed']={'tests_with_change':tests,'patch_applies_to_repo_HEAD':applies=='yes','demo_exit_with_change':int(w),'demo_exit_without_change':int(wo)}
m['checks_run']={kv.split(':')[0]:('ALARM (%s clause group(s))'%kv.split(':')[1] if int(kv.split(':')[1])>0 else 'quiet') for kv in res.split()}
json.dump(m,open(out+'/meta.json','w'),indent=1)
PY
