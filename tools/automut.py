#!/venv/bin/python
"""Automatic mutation sweep (sensitivity of the checks beyond the hand-written catalogue and the sub-agents' changes).

  tools/automut.py gen    <dir>                 enumerate AST-level mutants of /repo/penman/*.py -> <dir>/mutants.json
  tools/automut.py tests  <dir> [-j N]          keep those with which the 93 tests still pass       -> <dir>/survivors.json
  tools/automut.py checks <dir> [-j N] [ids..]  run the quick checks mapped to the mutated file on every survivor
                                                (VERIF_SKIP_MC=1: the bounded instances do not depend on the code)
                                                                                                   -> <dir>/results.json
  tools/automut.py report <dir>                 table: killed by which check / not killed

<dir> is a scratch directory outside /repo and /verif; every copy of the library made there is removed after use.
Operators: comparison swaps, and/or, dropped `not`, if-condition forced, integer constants +-1, True/False, `continue`/`break`
-> pass, removed expression statements (calls), str-method swaps (strip family, startswith/endswith, append -> insert(0)),
slice/index shifts, `return x` -> `return None` for non-trivial x, default-argument and keyword removal.
"""
import ast
import json
import os
import re
import shutil
import subprocess
import sys
from concurrent.futures import ThreadPoolExecutor

REPO = '/repo'
VERIF = os.path.dirname(os.path.dirname(os.path.abspath(__file__)))     # the tree this tool lives in (a snapshot under vp run)
FILES = ['_lexer.py', '_parse.py', '_format.py', 'tree.py', 'layout.py', 'graph.py', 'model.py', 'transform.py', 'constant.py',
         'codec.py', 'surface.py', '__main__.py', 'models/noop.py', 'interface.py', 'exceptions.py']
# which quick checks observe which file (anchors of the properties)
MAP = {
    '_lexer.py': 'C08 C07 C01 C19 C09 C18', '_parse.py': 'C07 C01 C09 C19', '_format.py': 'C01 C19 C03 C20', 'tree.py': 'C10 C01 C17',
    'layout.py': 'C02 C03 C04 C05 C06 C14 C12', 'graph.py': 'C15 C17 C03 C16', 'model.py': 'C13 C16 C05 C04 C11 C12',
    'transform.py': 'C11 C12 C13 C20', 'constant.py': 'C18 C03', 'codec.py': 'C09 C03 C19 C17', 'surface.py': 'C04 C02 C17',
    '__main__.py': 'C20 C16 C17', 'models/noop.py': 'C13 C04', 'interface.py': 'C09 C03', 'exceptions.py': 'C07 C09',
}
CMP = {ast.Eq: '!=', ast.NotEq: '==', ast.Lt: '<=', ast.LtE: '<', ast.Gt: '>=', ast.GtE: '>', ast.In: 'not in', ast.NotIn: 'in',
       ast.Is: 'is not', ast.IsNot: 'is'}
METH = {'rstrip': ['strip', 'lstrip'], 'lstrip': ['strip'], 'strip': ['rstrip'], 'startswith': ['endswith'], 'endswith': ['startswith'],
        'append': ['INSERT0'], 'extend': ['DROP'], 'update': ['DROP'], 'pop': ['POP0'], 'partition': ['rpartition'], 'get': ['GETNONE'],
        'lower': ['upper'], 'add': ['DROP'], 'discard': ['DROP'], 'sort': ['DROP'], 'reverse': ['DROP'], 'isalpha': ['isalnum'],
        'setdefault': ['get']}


def seg(src, node):
    return ast.get_source_segment(src, node)


class Gen(ast.NodeVisitor):
    def __init__(self, src):
        self.src = src
        self.lines = src.split('\n')
        self.out = []       # (lineno, col, end_lineno, end_col, replacement, description)
        self.in_doc = set()

    def rep(self, node, new, what):
        self.out.append((node.lineno, node.col_offset, node.end_lineno, node.end_col_offset, new, what))

    def visit_Compare(self, n):
        if len(n.ops) == 1 and type(n.ops[0]) in CMP:
            l, r = seg(self.src, n.left), seg(self.src, n.comparators[0])
            if l and r:
                self.rep(n, f'({l} {CMP[type(n.ops[0])]} {r})', 'cmp ' + CMP[type(n.ops[0])])
        self.generic_visit(n)

    def visit_BoolOp(self, n):
        parts = [seg(self.src, v) for v in n.values]
        if all(parts):
            op = ' or ' if isinstance(n.op, ast.And) else ' and '
            self.rep(n, '(' + op.join(f'({p})' for p in parts) + ')', 'boolop' + op.rstrip())
            for i in range(len(parts)):
                rest = parts[:i] + parts[i + 1:]
                mine = ' and ' if isinstance(n.op, ast.And) else ' or '
                self.rep(n, '(' + mine.join(f'({p})' for p in rest) + ')', f'boolop drop operand {i}')
        self.generic_visit(n)

    def visit_UnaryOp(self, n):
        if isinstance(n.op, ast.Not):
            s = seg(self.src, n.operand)
            if s:
                self.rep(n, f'({s})', 'drop not')
        self.generic_visit(n)

    def _cond(self, n):
        t = seg(self.src, n.test)
        if t and not isinstance(n.test, ast.Constant):
            self.rep(n.test, 'True', 'cond -> True')
            self.rep(n.test, 'False', 'cond -> False')

    def visit_If(self, n):
        self._cond(n)
        self.generic_visit(n)

    def visit_IfExp(self, n):
        self._cond(n)
        self.generic_visit(n)

    def visit_While(self, n):
        t = seg(self.src, n.test)
        if t and not isinstance(n.test, ast.Constant):
            self.rep(n.test, 'False', 'while -> False')
        self.generic_visit(n)

    def visit_Constant(self, n):
        if (n.lineno, n.col_offset) in self.in_doc:
            return
        v = n.value
        if isinstance(v, bool):
            self.rep(n, str(not v), 'bool flip')
        elif isinstance(v, int):
            self.rep(n, str(v + 1), 'int +1')
            if v != 0:
                self.rep(n, str(v - 1), 'int -1')
        elif isinstance(v, str) and 0 < len(v) <= 3 and '\n' not in v and not self.src.split('\n')[n.lineno - 1].lstrip().startswith(('"""', "'''")):
            self.rep(n, repr(v + v[-1]) if v.strip() else repr(v + '_'), 'str constant changed')
            self.rep(n, "''", 'str constant emptied')

    def visit_Continue(self, n):
        self.rep(n, 'pass', 'continue -> pass')

    def visit_Break(self, n):
        self.rep(n, 'pass', 'break -> pass')

    def visit_Expr(self, n):
        if isinstance(n.value, ast.Constant) and isinstance(n.value.value, str):
            self.in_doc.add((n.value.lineno, n.value.col_offset))
            return
        if isinstance(n.value, ast.Call):
            f = seg(self.src, n.value.func) or ''
            if not f.startswith(('logger.', 'logging.', 'print', 'parser.add', 'form.add', 'norm.add', 'model_group.add', '_verif_emit')):
                self.rep(n, 'pass', 'statement removed: ' + (seg(self.src, n) or '')[:50].replace('\n', ' '))
        self.generic_visit(n)

    def visit_Call(self, n):
        if isinstance(n.func, ast.Attribute) and n.func.attr in METH:
            obj = seg(self.src, n.func.value)
            args = ', '.join(filter(None, [seg(self.src, a) for a in n.args] + [seg(self.src, k) for k in n.keywords]))
            for alt in METH[n.func.attr]:
                if alt == 'INSERT0' and len(n.args) == 1:
                    self.rep(n, f'{obj}.insert(0, {args})', 'append -> insert(0)')
                elif alt == 'POP0' and not n.args:
                    self.rep(n, f'{obj}.pop(0)', 'pop() -> pop(0)')
                elif alt == 'GETNONE' and len(n.args) == 2:
                    self.rep(n, f'{obj}.get({seg(self.src, n.args[0])})', 'get default removed')
                elif alt == 'DROP':
                    pass       # covered by statement removal
                elif alt.islower():
                    self.rep(n, f'{obj}.{alt}({args})', f'{n.func.attr} -> {alt}')
        # keyword argument removal (model=model, top=g.top, ...)
        if n.keywords and seg(self.src, n.func):
            for i, k in enumerate(n.keywords):
                if k.arg is None:
                    continue
                parts = [seg(self.src, a) for a in n.args] + [f'{kk.arg}={seg(self.src, kk.value)}' if kk.arg else '**' + seg(self.src, kk.value)
                                                              for j, kk in enumerate(n.keywords) if j != i]
                if all(parts):
                    self.rep(n, f'{seg(self.src, n.func)}({", ".join(parts)})', f'keyword {k.arg} removed')
        self.generic_visit(n)

    def visit_Subscript(self, n):
        sl = n.slice
        v = seg(self.src, n.value)
        if isinstance(n.ctx, ast.Load) and v:
            if isinstance(sl, ast.Constant) and isinstance(sl.value, int):
                self.rep(n, f'{v}[{sl.value + 1}]', 'index +1')
                if sl.value == -1:
                    self.rep(n, f'{v}[0]', 'index -1 -> 0')
            elif isinstance(sl, ast.Slice):
                lo, hi = seg(self.src, sl.lower) if sl.lower else '', seg(self.src, sl.upper) if sl.upper else ''
                if sl.step is None:
                    if lo:
                        self.rep(n, f'{v}[({lo}) + 1:{hi}]', 'slice lower +1')
                        self.rep(n, f'{v}[:{hi}]' if hi else f'{v}[:]', 'slice lower removed')
                    if hi:
                        self.rep(n, f'{v}[{lo}:({hi}) + 1]', 'slice upper +1')
        self.generic_visit(n)

    def visit_Return(self, n):
        if n.value is not None and not isinstance(n.value, (ast.Constant, ast.Name)):
            self.rep(n.value, 'None', 'return None')
        self.generic_visit(n)

    def visit_BinOp(self, n):
        l, r = seg(self.src, n.left), seg(self.src, n.right)
        if l and r:
            if isinstance(n.op, ast.Add):
                self.rep(n, f'({l} - {r})' if not isinstance(n.left, ast.Constant) or not isinstance(n.left.value, str) else l, 'binop + -> -')
            elif isinstance(n.op, ast.Sub):
                self.rep(n, f'({l} + {r})', 'binop - -> +')
            elif isinstance(n.op, ast.BitOr):
                self.rep(n, f'({l} & {r})', 'binop | -> &')
        self.generic_visit(n)

    def visit_AugAssign(self, n):
        t, v = seg(self.src, n.target), seg(self.src, n.value)
        if t and v:
            if isinstance(n.op, ast.BitOr):
                self.rep(n, f'{t} = {v}', 'augassign |= -> =')
            elif isinstance(n.op, ast.Add):
                self.rep(n, f'{t} -= {v}', 'augassign += -> -=')
                self.rep(n, f'{t} = {v}', 'augassign += -> =')
        self.generic_visit(n)


def apply(src, m):
    l1, c1, l2, c2, new, _ = m
    lines = src.split('\n')
    # column offsets are in UTF-8 bytes
    def cut(line, col):
        return line.encode('utf-8')[:col].decode('utf-8'), line.encode('utf-8')[col:].decode('utf-8')
    head = cut(lines[l1 - 1], c1)[0]
    tail = cut(lines[l2 - 1], c2)[1]
    return '\n'.join(lines[:l1 - 1] + [head + new + tail] + lines[l2:])


def cmd_gen(d):
    os.makedirs(d, exist_ok=True)
    allm = []
    for f in FILES:
        src = open(f'{REPO}/penman/{f}').read()
        g = Gen(src)
        tree = ast.parse(src)
        # docstrings first so that constants inside them are skipped
        for node in ast.walk(tree):
            if isinstance(node, (ast.FunctionDef, ast.ClassDef, ast.Module)) and node.body and isinstance(node.body[0], ast.Expr) \
                    and isinstance(node.body[0].value, ast.Constant) and isinstance(node.body[0].value.value, str):
                g.in_doc.add((node.body[0].value.lineno, node.body[0].value.col_offset))
        g.visit(tree)
        seen = set()
        for m in g.out:
            try:
                new = apply(src, m)
                ast.parse(new)
            except SyntaxError:
                continue
            if new == src or (m[:5]) in seen:
                continue
            seen.add(m[:5])
            allm.append({'id': len(allm), 'file': f, 'line': m[0], 'what': m[5], 'm': list(m[:5]),
                         'old': src.split('\n')[m[0] - 1].strip()[:120]})
    json.dump(allm, open(f'{d}/mutants.json', 'w'), indent=0)
    print(len(allm), 'mutants')
    by = {}
    for m in allm:
        by[m['file']] = by.get(m['file'], 0) + 1
    print(by)


def make_copy(d, m):
    c = f'{d}/m{m["id"]}'
    shutil.rmtree(c, ignore_errors=True)
    os.makedirs(c)
    for sub in ('penman', 'tests', 'docs'):
        shutil.copytree(f'{REPO}/{sub}', f'{c}/{sub}')
    p = f'{c}/penman/{m["file"]}'
    src = open(p).read()
    open(p, 'w').write(apply(src, tuple(m['m']) + ('',)))
    return c


def run_tests(d, m):
    c = make_copy(d, m)
    try:
        r = subprocess.run(['/venv/bin/python', '-m', 'pytest', '-q', '-x', '-p', 'no:cacheprovider', '--timeout=60', 'tests'], cwd=c,
                           env=dict(os.environ, PYTHONPATH=c, PYTHONDONTWRITEBYTECODE='1'), capture_output=True, text=True, timeout=300)
        last = (r.stdout.strip().splitlines() or ['?'])[-1]
    except subprocess.TimeoutExpired:
        last = 'timeout'
    shutil.rmtree(c, ignore_errors=True)
    return '93 passed' in last


def cmd_tests(d, j):
    ms = json.load(open(f'{d}/mutants.json'))
    with ThreadPoolExecutor(max_workers=j) as ex:
        ok = list(ex.map(lambda m: run_tests(d, m), ms))
    surv = [m for m, o in zip(ms, ok) if o]
    json.dump(surv, open(f'{d}/survivors.json', 'w'), indent=0)
    print(len(surv), 'of', len(ms), 'mutants keep the 93 tests green')


def run_checks(d, m, only):
    c = make_copy(d, m)
    res = {}
    for p in MAP[m['file']].split():
        if only and p not in only:
            continue
        try:
            r = subprocess.run([VERIF + '/check', p, '--tier', 'quick'], env=dict(os.environ, PENMAN_SRC=c, VERIF_SKIP_MC='1'),
                               capture_output=True, text=True, timeout=1800)
            out = r.stdout
            v = [l for l in out.splitlines() if l.startswith('VIOLATION')]
            if v:
                res[p] = '; '.join(re.sub(r'.*?\((.*)\)$', r'\1', x) for x in v)[:300]
                break                       # killed: no need to ask the other checks
            elif r.returncode == 2:
                res[p] = 'MACHINERY ' + (r.stderr.strip().splitlines() or ['?'])[-1][:200]
            else:
                res[p] = 'not detected'
        except subprocess.TimeoutExpired:
            res[p] = 'TIMEOUT'
    shutil.rmtree(c, ignore_errors=True)
    m = dict(m, checks=res, killed=any(v != 'not detected' and not v.startswith(('MACHINERY', 'TIMEOUT')) for v in res.values()))
    with open(f'{d}/results.ndjson', 'a') as f:
        f.write(json.dumps(m) + '\n')
    print(m['id'], m['file'], m['line'], m['what'], '->', res, flush=True)
    return m


def cmd_checks(d, j, only):
    surv = json.load(open(f'{d}/survivors.json'))
    done = set()
    if os.path.exists(f'{d}/results.ndjson'):
        done = {json.loads(l)['id'] for l in open(f'{d}/results.ndjson')}
    todo = [m for m in surv if m['id'] not in done]
    with ThreadPoolExecutor(max_workers=j) as ex:
        list(ex.map(lambda m: run_checks(d, m, only), todo))


def cmd_report(d):
    rs = [json.loads(l) for l in open(f'{d}/results.ndjson')]
    k = [r for r in rs if r['killed']]
    print(f'{len(rs)} test-surviving mutants evaluated, {len(k)} rejected by a check, {len(rs) - len(k)} not')
    for r in rs:
        if not r['killed']:
            print(f"  m{r['id']} {r['file']}:{r['line']} [{r['what']}] {r['old']}  {r['checks']}")


if __name__ == '__main__':
    cmd, d = sys.argv[1], sys.argv[2]
    rest = sys.argv[3:]
    j = 4
    if '-j' in rest:
        j = int(rest[rest.index('-j') + 1])
        del rest[rest.index('-j'):rest.index('-j') + 2]
    {'gen': lambda: cmd_gen(d), 'tests': lambda: cmd_tests(d, j), 'checks': lambda: cmd_checks(d, j, set(rest)),
     'report': lambda: cmd_report(d)}[cmd]()
