#!/bin/bash
# Re-run checks against a stored seeded change: tools/seedrun.sh <seeded name> <check id>...
name=$1; shift
d=$(mktemp -d /tmp/seedrun.XXXX); git -C /repo archive HEAD penman tests docs | tar -x -C $d
(cd $d && patch -p1 -s < /verif/seeded/$name/patch.diff) || { echo "patch does not apply"; rm -rf $d; exit 2; }
for p in "$@"; do PENMAN_SRC=$d /verif/check $p 2>&1 | grep "^VIOLATION\|^MACHINERY\|^$p " | cut -c1-230 | sed "s/^/[$name $p] /"; done
rm -rf $d
