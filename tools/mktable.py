"""Print the per-property numbers of the evidence files (the last run of every check) as a Markdown table."""
import json
import glob
rows = []
for f in sorted(glob.glob('/verif/evidence/C*.json')):
    e = json.load(open(f))
    c = e['coverage']
    rows.append('| %s | %s | %d | %s | %s | %d | %.0f s |' % (
        e['property_id'], e['tier'], e['seed'], format(c.get('states', 0), ','), format(c.get('traces_validated_against_impl', 0), ','),
        (e.get('violations') if isinstance(e.get('violations'), int) else len(e.get('violations', []))), e.get('wall_s', 0)))
print('| property | tier | seed | distinct specification states (MC + judging) | recorded executions judged by TLC | violations | wall |')
print('|---|---|---|---|---|---|---|')
print('\n'.join(rows))
