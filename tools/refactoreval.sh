#!/bin/bash
# Run every quick check against a behaviour-preserving refactoring (a worktree with _seed/{patch.diff,diff_fuzz.py,meta.json}): all must stay quiet.
# usage: tools/refactoreval.sh <worktree> <name> [check ids; default all]
wt=$1; name=$2; shift 2
out=/verif/neutral/$name; mkdir -p $out
cp $wt/_seed/patch.diff $wt/_seed/diff_fuzz.py $wt/_seed/meta.json $out/ 2>/dev/null
tests=$(cd $wt && PYTHONPATH=$wt /venv/bin/python -m pytest -q -p no:cacheprovider tests 2>&1 | tail -1)
echo "tests: $tests"
ids=${@:-C01 C02 C03 C04 C05 C06 C07 C08 C09 C10 C11 C12 C13 C14 C15 C16 C17 C18 C19 C20}
res=""
for p in $ids; do
  o=$(PENMAN_SRC=$wt VERIF_SKIP_MC=1 /verif/check $p --tier quick 2>&1 | grep "^VIOLATION\|^MACHINERY\|^$p " | cut -c1-260)
  n=$(echo "$o" | grep -c "^VIOLATION\|^MACHINERY")
  echo "$o" | sed "s/^/   [$p] /"
  res="$res $p:$n"
done
python3 - "$out" "$tests" "$res" <<'PY'
import json,sys
out,tests,res=sys.argv[1:4]
m=json.load(open(out+'/meta.json'))
m['confirmed']={'tests_with_change':tests}
m['checks_run']={kv.split(':')[0]:('ALARM (%s)'%kv.split(':')[1] if int(kv.split(':')[1])>0 else 'quiet') for kv in res.split()}
json.dump(m,open(out+'/meta.json','w'),indent=1)
PY
