"""Write the task files for a round of independent seeded changes: tools/mkprompts.py <prefix> <theme-offset> <property id>...
Creates a scratch worktree /tmp/wt_<name> per property and /tmp/seedprompts/<name>.txt (the only thing a sub-agent is given:
the property text and the one-line summaries of changes already tried)."""
import glob
import json
import os
import subprocess
import sys

THEMES = [
    "an error or early exit at a particular point (an exception path, a `finally`, a generator that is abandoned half-way, an iterator consumed twice, a partially consumed input) that leaves something in a state a later step relies on",
    "two cooperating edits in different functions (or files) that each look harmless alone and only break the property together",
    "an unusual but legal input class (rare characters, extreme sizes or depths, values of an unexpected Python type such as float/int/None targets, empty containers, repeated values, aliasing of the same object passed twice) reaching rarely executed code",
    "state that survives from one call to a later call (a cache, a shared mutable default, a module-level object, an attribute set lazily) so that only a particular multi-step sequence of calls shows the break",
]
if os.environ.get('SEED_THEME'):
    THEMES = [os.environ['SEED_THEME']] * 4   # one theme for the whole round
NEUTRAL = len(sys.argv) > 1 and sys.argv[1] == '--neutral'
if NEUTRAL:
    del sys.argv[1]
prefix, off, rnd = sys.argv[1], int(sys.argv[2]), sys.argv[3:]
os.chdir('/verif')
props = {json.loads(l)['id']: json.loads(l) for l in open('properties.jsonl')}
tried = {}
for d in sorted(glob.glob('seeded/*') + glob.glob('neutral/*')):
    m = json.load(open(d + '/meta.json'))
    tried.setdefault(m['property'], []).append(m['summary'][:400])
os.makedirs('/tmp/seedprompts', exist_ok=True)
for i, p in enumerate(rnd):
    name = '%s%02d-%s' % (prefix, i + 1, p)
    wt = '/tmp/wt_' + name
    subprocess.run(['git', '-C', '/repo', 'worktree', 'add', '--detach', wt, 'HEAD'], check=True, capture_output=True)
    os.makedirs(wt + '/_seed', exist_ok=True)
    pr = props[p]
    head = f"""You are helping to evaluate a verification tool for the Python library goodmami/penman (PENMAN graph notation: parsing, serialising, layout, transformations, CLI).
Your own scratch git worktree of the library is at {wt} (a detached checkout; work ONLY inside it; never touch /repo or /verif, and do not read anything under /verif).
"""
    if not NEUTRAL:
        task = f"""
TASK. Write ONE realistic change to the library source (under {wt}/penman/) that BREAKS the property below, while
  (a) the package still imports and the existing test suite still passes unedited:
        cd {wt} && PYTHONPATH={wt} /venv/bin/python -m pytest -q -p no:cacheprovider tests     (must say 93 passed)
  (b) the change looks like something a maintainer could plausibly commit (a refactor, an optimisation, a tidy-up, a 'simplification', a bug fix gone wrong) - not sabotage, no dead flags, no special-casing of magic inputs;
  (c) the break needs something SPECIFIC to manifest, so ordinary use and the tests do not expose it at once. Theme for you: {THEMES[(i + off) % 4]}.
Do not edit tests/. Keep the change small (typically 3-25 changed lines). Keep your own messages short: do not paste large files or long outputs into your replies.
"""
        demo = """a small stand-alone program (it imports penman from PYTHONPATH; no pytest needed) that exits 0 on the UNCHANGED library and exits 1 (with a short message) on the changed one, demonstrating that the property as stated is violated - it must exercise the property's own observable (e.g. content changes, an equation between calls fails), not just 'behaviour differs'."""
        codes = ('1', '0')
        metaextra = '"needs": "<what exactly is needed for the break to manifest>"'
        triedhdr = "Changes ALREADY tried by others for this property (write something of a DIFFERENT kind, in a different mechanism if possible):"
    else:
        task = f"""
TASK (a false-alarm probe). Write ONE realistic change to the library source (under {wt}/penman/) that changes OBSERVABLE behaviour of the code the property below is anchored in, but does NOT violate the property as stated nor anything the documentation (docs/*.rst, docstrings) promises - the kind of change a maintainer is free to make: a different but equally valid choice where the property leaves freedom, better messages, a documented-as-unspecified order, an internal representation, laziness, extra robustness on inputs outside the property's quantifier, performance work with identical results, etc.  It must not be a pure no-op (some program must be able to tell the difference) and must not be trivial (renaming a private variable does not count). Be careful and conservative: read the statement clause by clause and make sure every clause still holds for every input in its quantifier.
  The existing test suite must still pass unedited:
        cd {wt} && PYTHONPATH={wt} /venv/bin/python -m pytest -q -p no:cacheprovider tests     (must say 93 passed)
Do not edit tests/. Keep the change small (typically 3-25 changed lines). Keep your own messages short: do not paste large files or long outputs into your replies.
"""
        demo = """a small stand-alone program (it imports penman from PYTHONPATH) that shows the observable difference: it exits 0 on the UNCHANGED library and exits 1 (with a short message) on the changed one; and, in a function `property_still_holds()` that it also runs, spot-checks on a few dozen inputs that the property's clauses still hold with the change (print 'property holds' - this part must pass on both)."""
        codes = ('1', '0')
        metaextra = '"observable_difference": "<what differs and for which inputs>", "why_property_holds": "<clause by clause, why the statement is still true>"'
        triedhdr = "Changes already written by others for this property (pick something of a different kind):"
    txt = head + task + f"""
PROPERTY {p}: {pr['title']}
Statement: {pr['statement']}
Quantified over: {pr['quantifier']['text']}
Why the existing tests cannot settle it: {pr['why_tests_cant']}
Code the property is anchored in: {json.dumps(pr['anchors']['files'])}; mechanisms: {json.dumps(pr['anchors']['mechanism'])}
Observed at: {json.dumps(pr['anchors']['observe_at'])}

{triedhdr}
""" + "\n".join("  - " + t for t in tried.get(p, [])) + f"""

DELIVERABLES, all inside {wt}/_seed/ :
  1. patch.diff  - `cd {wt} && git diff -- penman > _seed/patch.diff` (the change itself must remain applied in the worktree; only files under penman/ may differ).
  2. demo.py     - {demo}
       Verify both:  PYTHONPATH={wt} /venv/bin/python _seed/demo.py ; echo $?      -> {codes[0]}
                     (cd /tmp && PYTHONPATH=/repo /venv/bin/python {wt}/_seed/demo.py ; echo $?)   -> {codes[1]}
  3. meta.json   - {{"property": "{p}", "summary": "<one or two sentences: what was changed>", {metaextra}, "files": ["penman/..."], "why_tests_pass": "<why the 93 tests stay green>"}}
Before you finish, re-run the test suite and both demo runs and make sure the results are as required. Your final answer should be a 5-line summary (files changed, what it needs / what differs, test result, demo exit codes). Python is /venv/bin/python. There is no network.
"""
    open('/tmp/seedprompts/%s.txt' % name, 'w').write(txt)
    print(name)
