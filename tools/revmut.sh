#!/bin/bash
# Build scratch copies of /repo with one fix commit reverted each (sensitivity catalogue: re-introducing a repaired
# defect must make the named check fail again).  usage: tools/revmut.sh <outdir>   (outdir outside /repo and /verif)
set -e
out=${1:-/tmp/w/rev}
rm -rf "$out"; mkdir -p "$out"
git -C /repo log --format='%h %s' d36cdd6..HEAD | grep ' fix:' | while read h subj; do
  d="$out/$h"; mkdir -p "$d"
  cp -r /repo/penman /repo/tests /repo/docs "$d/"
  git -C /repo diff "$h^" "$h" | (cd "$d" && patch -R -p1 -s) || echo "could not revert $h"
  echo "$h $subj" > "$d/MUTANT.txt"
done
ls "$out"
