#!/venv/bin/python
"""Apply each candidate mutant of tools/mutants.py to a scratch copy, keep it if the 93 tests pass, run the named checks.
usage: tools/runmutants.py <scratch dir outside /repo and /verif> [mutant names...]"""
import json
import os
import re
import shutil
import subprocess
import sys

sys.path.insert(0, '/verif/tools')
from mutants import M  # noqa: E402

out = sys.argv[1] if len(sys.argv) > 1 else '/tmp/w/mutrun'
only = set(sys.argv[2:])
os.makedirs(out, exist_ok=True)
results = []
for name, file, old, new, checks in M:
    if only and name not in only:
        continue
    d = os.path.join(out, name)
    shutil.rmtree(d, ignore_errors=True)
    os.makedirs(d)
    for sub in ('penman', 'tests', 'docs'):
        shutil.copytree('/repo/' + sub, os.path.join(d, sub))
    src = open(os.path.join(d, file)).read()
    if src.count(old) != 1:
        results.append((name, 'anchor found %d times' % src.count(old), {}))
        print(name, 'ANCHOR', src.count(old), flush=True)
        shutil.rmtree(d)
        continue
    open(os.path.join(d, file), 'w').write(src.replace(old, new))
    t = subprocess.run(['/venv/bin/python', '-m', 'pytest', '-q', '-p', 'no:cacheprovider', 'tests'], cwd=d,
                       env=dict(os.environ, PYTHONPATH=d), capture_output=True, text=True).stdout.strip().splitlines()[-1]
    if '93 passed' not in t:
        results.append((name, 'tests fail: ' + t, {}))
        print(name, 'TESTS-FAIL', t, flush=True)
        shutil.rmtree(d)
        continue
    res = {}
    for p in checks.split():
        o = subprocess.run(['/verif/check', p], env=dict(os.environ, PENMAN_SRC=d), capture_output=True, text=True).stdout
        v = [l for l in o.splitlines() if l.startswith('VIOLATION')]
        res[p] = re.sub(r'.*?\((.*)\)$', r'\1', v[0]) if v else 'not detected'
    results.append((name, 'tests pass', res))
    print(name, res, flush=True)
    shutil.rmtree(d)
    json.dump(results, open(os.path.join(out, 'results.json'), 'w'), indent=1)
