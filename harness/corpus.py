"""Inputs harvested at run time from the repository's own tests and documentation."""
import ast
import glob
import os
import re

REPO = os.environ.get('PENMAN_SRC', '/repo')


def strings():
    out = []
    for fn in sorted(glob.glob(os.path.join(REPO, 'tests', '*.py'))):
        try:
            tree = ast.parse(open(fn, encoding='utf-8').read())
        except SyntaxError:
            continue
        for n in ast.walk(tree):
            if isinstance(n, ast.Constant) and isinstance(n.value, str) and 0 < len(n.value) < 2000:
                out.append(n.value)
    for fn in sorted(glob.glob(os.path.join(REPO, 'docs', '*.rst')) + glob.glob(os.path.join(REPO, 'docs', 'api', '*.rst'))):
        txt = open(fn, encoding='utf-8').read()
        # parenthesised blocks in the documentation
        for m in re.finditer(r'(?m)^( +)(\(.*(?:\n\1 .*)*)', txt):
            block = '\n'.join(l[len(m.group(1)):] if l.startswith(m.group(1)) else l for l in m.group(2).split('\n'))
            if len(block) < 2000:
                out.append(block)
    seen = set()
    res = []
    for s in out:
        if s not in seen and '%null' not in s and all(ord(c) < 0x10000 for c in s):
            seen.add(s)
            res.append(s)
    return res


def graph_strings():
    return [s for s in strings() if '(' in s and ')' in s]
