"""
Projections between penman objects and the JSON shapes the TLA+ specification
uses (DESIGN.md section 3.2).  Text is carried verbatim; nothing here inspects
roles, alignments or strings - that is the specification's job.
"""
NULL = '%null'


class ProjectionError(Exception):
    pass


def atom(x):
    """Written form of an atomic tree/graph value."""
    if x is None:
        return NULL
    if isinstance(x, str):
        if x == NULL:
            raise ProjectionError('sentinel used as real text')
        return x
    if isinstance(x, bool):
        return str(x)
    if isinstance(x, (int, float)):
        return str(x)
    raise ProjectionError(f'not atomic: {x!r}')


def _is_atomic(x):
    return x is None or isinstance(x, (str, int, float))


def flatten_node(node, d, out):
    var, branches = node
    for role, target in branches:
        if _is_atomic(target):
            out.append({'d': d, 'role': role, 'kind': 'atom', 'val': atom(target)})
        else:
            out.append({'d': d, 'role': role, 'kind': 'node', 'val': atom(target[0])})
            flatten_node(target, d + 1, out)
    return out


def flatten_tree(node, metadata=None):
    """(var, branches) -> {'top', 'br', 'meta'}"""
    br = []
    flatten_node(node, 0, br)
    meta = [[k, v] for k, v in (metadata or {}).items()]
    return {'top': atom(node[0]), 'br': br, 'meta': meta}


def tree_to_json(t):
    return flatten_tree(t.node, t.metadata)


def _un(x):
    return None if x == NULL else x


def unflatten_tree(ft):
    """Inverse of flatten_tree: returns (node, metadata)."""
    br = ft['br']
    pos = [0]

    def build(var, d):
        branches = []
        while pos[0] < len(br) and br[pos[0]]['d'] == d:
            b = br[pos[0]]
            pos[0] += 1
            if b['kind'] == 'atom':
                branches.append((b['role'], _un(b['val'])))
            else:
                branches.append((b['role'], build(_un(b['val']), d + 1)))
        if pos[0] < len(br) and br[pos[0]]['d'] > d:
            raise ProjectionError('bad depth sequence')
        return (var, branches)

    node = build(_un(ft['top']), 0)
    if pos[0] != len(br):
        raise ProjectionError('trailing branches')
    return node, {k: v for k, v in ft['meta']}


def check_tree_roundtrip(node, metadata=None):
    ft = flatten_tree(node, metadata)
    n2, m2 = unflatten_tree(ft)
    if flatten_tree(n2, m2) != ft:
        raise ProjectionError('tree projection not invertible')
    return ft


def marker(epi):
    from penman.layout import Push, Pop
    from penman.surface import Alignment, RoleAlignment
    if isinstance(epi, Push):
        return {'m': 'push', 'v': atom(epi.variable)}
    if isinstance(epi, Pop):
        return {'m': 'pop', 'v': ''}
    if isinstance(epi, RoleAlignment):
        return {'m': 'ralign', 'v': str(epi)[1:]}
    if isinstance(epi, Alignment):
        return {'m': 'align', 'v': str(epi)[1:]}
    return {'m': 'other', 'v': repr(epi)}


def triple(t):
    return [atom(t[0]), atom(t[1]), atom(t[2])]


def graph_to_json(g):
    """
    Graph -> {'top', 'xtop', 'tr', 'epi', 'meta', 'extra'}: 'epi' is index-aligned
    with 'tr' and holds the marker list the value-keyed map gives for that
    triple ([] if there is no entry); 'extra' lists map entries whose key is
    not in the triple list.
    """
    tr = [triple(t) for t in g.triples]
    epi = [[marker(e) for e in g.epidata.get(t, [])] for t in g.triples]
    keys = set(g.triples)
    extra = [[triple(k), [marker(e) for e in v]] for k, v in g.epidata.items() if k not in keys]
    return {'top': atom(g.top), 'xtop': atom(g._top), 'tr': tr, 'epi': epi,
            'meta': [[k, v] for k, v in g.metadata.items()], 'extra': extra}


def token(t):
    return {'type': t.type, 'text': t.text, 'line': t.lineno, 'col': t.offset}
