"""Regenerate MANIFEST.json from the table below (run from /verif)."""
import json
import os
import sys

HERE = os.path.dirname(os.path.dirname(os.path.abspath(__file__)))
sys.path.insert(0, HERE)

CHECKS = {
 'C01': dict(engine='syntax', design='5 C01, 4.1-4.3',
   text='TLC model-checks format->lex->parse round trip, token-sequence invariance and the fixed point on every tree of a bounded instance (MC_Format); the same trees (exported by TLC) and seeded random trees far beyond the bound are formatted and re-parsed by the real code and every recorded text/tree is judged by TLC against the specification lexer+parser (J_Syntax); the fixed-point clause is judged on corpus strings and all short texts.',
   note='TLC, CommunityModules Json; Python projection of trees (checked invertible); bounded instance + sampling, no unbounded proof; exact whitespace is drift only',
   technique='TLA+ spec (Lexer/Parser/Formatter) model-checked by TLC + TLC trace validation of recorded format/parse executions'),
 'C07': dict(engine='syntax', design='5 C07, 4.2',
   text='TLC checks the push-down parser against a declarative derivation relation and the error-position rule on all token-type sequences up to a bound (MC_Parser); the real parse / iterparse / parse_triples are run on the same sequences, on all short texts over the delimiter alphabet, on damaged valid graphs and nesting up to 200, and TLC judges acceptance, tree and error line/column of every recorded outcome.',
   note='TLC; bounded exhaustive + seeded sampling; hangs detected by a 5 s timeout on the implementation; nesting beyond 200 not examined',
   technique='TLA+ LL(1) parser spec vs declarative grammar (TLC) + TLC trace validation of recorded parser outcomes'),
 'C08': dict(engine='syntax', design='5 C08, 4.1',
   text='TLC checks tiling, class-by-grammar, maximal munch and container agreement of the specification scanner on every text up to a bound over the 27-character alphabet, both patterns (MC_Lexer); the real lexer is run on all short texts, random long lines and corpus strings (string and list-of-lines input) and TLC compares every token (type, text, line, column) with the specification.',
   note='TLC; VT/FF inside quotes not judged (O5); MC alphabet restricted to low-byte-unique characters (TLC fingerprint limitation), U+2028/2029 added on the implementation side',
   technique='TLA+ lexer spec model-checked by TLC + TLC trace validation of recorded token streams'),
 'C18': dict(engine='syntax', design='5 C18, 4.10',
   text='TLC checks on all strings/atom texts up to a bound that Quote gives one STRING token, Unquote inverts it, and that evaluation kind/type follow JSON number syntax (two formulations) (MC_Constant); recorded quote/evaluate/type results of the real code on the same spaces and beyond are judged by TLC.',
   note='numeric values are not modelled (kinds/types only); TLC string equality decides evaluate(quote(s)) = s',
   technique='TLA+ constant spec model-checked by TLC + TLC trace validation'),
 'C19': dict(engine='syntax', design='5 C19, 4.2',
   text='TLC checks ParseTriples(FmtTriples(ts)) = ts and agreement of all documented spacing variants on every small list (MC_Triples); recorded format_triples/parse_triples executions on corpus graphs and random lists (quoted targets with blanks, commas, parentheses, carets) are judged by TLC.',
   note='lists outside the notation (commas/carets in sources or roles) are not judged',
   technique='TLA+ triple-conjunction spec model-checked by TLC + TLC trace validation'),
}
NOT_YET = 'check not built yet (build in progress, see DESIGN.md section 11)'


def main():
    props = [json.loads(l)['id'] for l in open(os.path.join(HERE, 'properties.jsonl'))]
    from harness.main import REGISTRY
    checks = []
    for p in props:
        if p in CHECKS and p in REGISTRY:
            c = CHECKS[p]
            checks.append({
                'property_id': p,
                'quick_cmd': f'./check {p} --tier quick',
                'thorough_cmd': f'./check {p} --tier thorough',
                'evidence_file': f'/verif/evidence/{p}.json',
                'replay_cmd_template': f'./check {p} --replay {{path}}',
                'engine': c['engine'],
                'level_claimed': {'category': 'model_checking', 'text': c['text'], 'design_ref': 'DESIGN.md section ' + c['design']},
                'level_note': c['note'],
                'technique': c['technique'],
            })
    na = [{'property_id': p, 'reason': NOT_YET} for p in props if not (p in CHECKS and p in REGISTRY)]
    engines = {}
    for p, c in CHECKS.items():
        if p in REGISTRY:
            engines.setdefault(c['engine'], []).append(p)
    m = {
        'version': 1,
        'setup_cmd': './setup.sh',
        'hooks': {'guard': 'PENMAN_VERIF',
                  'enable': 'no hooks: every observable is public API; checks import penman from /repo working tree via PYTHONPATH (PENMAN_SRC, default /repo) in a fresh interpreter with bytecode writing off',
                  'baseline_off_cmd': 'cd /repo && /venv/bin/python -m pytest -ra -q -p no:cacheprovider --timeout=900 --continue-on-collection-errors',
                  'source_commits': [], 'add_only': True},
        'engines': [{'name': k, 'path': '/verif/harness', 'serves_properties': sorted(v),
                     'kind_free_text': 'TLA+ specification (spec/*.tla) checked by TLC; Python drives penman and records traces; TLC judges them'}
                    for k, v in sorted(engines.items())],
        'checks': checks,
        'notes': 'Every verdict is computed by TLC 1.8 on the TLA+ specification under /verif/spec; see DESIGN.md. known_findings.json lists fixed and open findings.',
        'not_applicable': na,
    }
    json.dump(m, open(os.path.join(HERE, 'MANIFEST.json'), 'w'), indent=1)
    print(len(checks), 'checks;', len(na), 'not applicable')


if __name__ == '__main__':
    main()
