"""Regenerate MANIFEST.json from the table below (run from /verif)."""
import json
import os
import sys

HERE = os.path.dirname(os.path.dirname(os.path.abspath(__file__)))
sys.path.insert(0, HERE)

CHECKS = {
 'C01': dict(engine='syntax', design='5 C01, 4.1-4.3',
   text='TLC model-checks format->lex->parse round trip, token-sequence invariance and the fixed point on every tree of a bounded instance (MC_Format); the same trees (exported by TLC) and seeded random trees far beyond the bound are formatted and re-parsed by the real code and every recorded text/tree is judged by TLC against the specification lexer+parser (J_Syntax); the fixed-point clause is judged on corpus strings and all short texts.',
   note='TLC, CommunityModules Json; Python projection of trees (checked invertible); bounded instance + sampling, no unbounded proof; exact whitespace is drift only',
   technique='TLA+ spec (Lexer/Parser/Formatter) model-checked by TLC + TLC trace validation of recorded format/parse executions'),
 'C07': dict(engine='syntax', design='5 C07, 4.2',
   text='TLC checks the push-down parser against a declarative derivation relation and the error-position rule on all token-type sequences up to a bound (MC_Parser); the real parse / iterparse / parse_triples are run on the same sequences, on all short texts over the delimiter alphabet, on damaged valid graphs and nesting up to 200, and TLC judges acceptance, tree and error line/column of every recorded outcome.',
   note='TLC; bounded exhaustive + seeded sampling; hangs detected by a 5 s timeout on the implementation; nesting beyond 200 not examined',
   technique='TLA+ LL(1) parser spec vs declarative grammar (TLC) + TLC trace validation of recorded parser outcomes'),
 'C08': dict(engine='syntax', design='5 C08, 4.1',
   text='TLC checks tiling, class-by-grammar, maximal munch and container agreement of the specification scanner on every text up to a bound over the 27-character alphabet, both patterns (MC_Lexer); the real lexer is run on all short texts, random long lines and corpus strings (string and list-of-lines input) and TLC compares every token (type, text, line, column) with the specification.',
   note='TLC; VT/FF inside quotes not judged (O5); MC alphabet restricted to low-byte-unique characters (TLC fingerprint limitation), U+2028/2029 added on the implementation side',
   technique='TLA+ lexer spec model-checked by TLC + TLC trace validation of recorded token streams'),
 'C18': dict(engine='syntax', design='5 C18, 4.10',
   text='TLC checks on all strings/atom texts up to a bound that Quote gives one STRING token, Unquote inverts it, and that evaluation kind/type follow JSON number syntax (two formulations) (MC_Constant); recorded quote/evaluate/type results of the real code on the same spaces and beyond (atom texts with % s d { }, error paths included) are judged by TLC.',
   note='numeric values are not modelled (kinds/types only); TLC string equality decides evaluate(quote(s)) = s',
   technique='TLA+ constant spec model-checked by TLC + TLC trace validation'),
 'C19': dict(engine='syntax', design='5 C19, 4.2',
   text='TLC checks ParseTriples(FmtTriples(ts)) = ts and agreement of all documented spacing variants on every small list (MC_Triples); recorded format_triples/parse_triples executions on corpus graphs and random lists (quoted targets with blanks, commas, parentheses, carets) are judged by TLC. The text is read a second time after the caller has changed the first result in place; two jobs in five go through the methods of a codec instead of the module-level functions, and one conjunction has more triples (1100) than the interpreter has stack frames by default.',
   note='lists outside the notation (commas/carets in sources or roles) are not judged',
   technique='TLA+ triple-conjunction spec model-checked by TLC + TLC trace validation'),
 'C04': dict(engine='layout', design='5 C04, 4.5',
   text='TLC checks the clauses of the documented reading (one instance triple per node, null concept first, one triple per branch in depth-first order, single deinversion only towards node variables and never under the no-op model, alignments never inside triples, marker counts) on every tree of a bounded instance under three models (MC_Interpret); the real interpret / alignments / role_alignments are run on the TLC-exported trees, corpus trees and random well- and ill-formed trees under five kinds of model, and TLC compares top, ordered triples, variables and alignment attachment with the reference reading. How every reported alignment marker reads its own text (prefix, indices) is judged against the documented alignment syntax.',
   note='reference reading written from docs/notation.rst and docs/structures.rst; Push/POP placement is drift here (gates in C02/C14); model tables are data',
   technique='TLA+ reference interpretation model-checked by TLC + TLC trace validation of recorded interpret results'),
 'C02': dict(engine='layout', design='5 C02, 4.5-4.6',
   text='The configure algorithm is a PlusCal machine (MC_Configure, MODE=roundtrip): TLC checks on every well-formed tree of a bounded instance that running the machine on the reference reading never improvises and returns the normal form, plus termination; recorded configure(interpret(t)) and encode(decode(s)) of the real code on TLC-exported, corpus and random well-formed trees under five kinds of model are judged by TLC against Norm(t) (well-formedness is a specification predicate).',
   note='normal form = drop an empty concept slot only; F25 (an alignment index written with a leading zero is not reproduced) is an open known finding with its own signature; the machine models layout markers, alignments are covered by the trace judge only',
   technique='PlusCal machine of configure model-checked by TLC + TLC trace validation of recorded round trips'),
 'C03': dict(engine='layout', design='5 C03, 4.6',
   text='TLC checks on the PlusCal machine of configure (MC_Configure, MODE=corrupt) that for every bounded graph, triple order, marker assignment and top the result denotes the same graph or LayoutError is raised exactly when the graph is not connected, with termination; the real encode is run on random well-formed connected graphs in shuffled orders from every top with typed constants (0, 0.0, -1, None, strings) and on decoded graphs, and TLC judges the recorded tree, text, re-parse and re-decode with the postcondition EncodesTo. A share of the graphs is reached by an edit history on one live object (queried and encoded before the in-place edit) or is a deep copy / pickle round trip of the graph built.',
   note='constants compared by written form; which layout is chosen is not judged; roles whose inversion the model defines (O1) and inexpressible constants are outside the precondition',
   technique='PlusCal machine + postcondition operators model-checked by TLC + TLC trace validation of recorded encode/decode executions'),
 'C06': dict(engine='layout', design='5 C06, 4.6',
   text='Same PlusCal machine: every insertion position x Push(a)/Push(b)/none x POP/none x top is explored by TLC with the invariant "LayoutError iff not connected, else same content", a bound on improvisation rounds and Termination; the real encode is run on decoded graphs under 1-5 marker/order edits and on arbitrary triple lists, and TLC judges success/failure precision, exception class and content. A share of the graphs is reached by an edit history on one live object (queried and encoded before the in-place edit) or is a deep copy / pickle round trip of the graph built.',
   note='hangs detected by a 5 s timeout; Push markers naming non-variables and phantom explicit tops are not judged (O10, O11); only layout markers are corrupted, alignment markers stay with their triples',
   technique='PlusCal machine model-checked by TLC (histories of marker edits) + TLC trace validation'),
 'C05': dict(engine='layout', design='5 C05, 4.7',
   text='TLC checks that Rearrange is a per-node permutation, keeps the concept first, preserves the graph, is sorted by the key, stable on ties, orders numeric suffixes numerically and inverted roles last, and is idempotent, for every tree x key x attributes-first of a bounded instance (MC_Rearrange); recorded rearrange / reconfigure / encode-with-new-top executions on random and corpus inputs are judged by TLC (content, per-node bags, concept first, exact order for deterministic keys).',
   note='ordering of aligned or non-ASCII roles not judged (O2); random key judged on content only',
   technique='TLA+ spec of rearrange and sort keys model-checked by TLC + TLC trace validation'),
 'C14': dict(engine='layout', design='5 C14, 4.5, 4.7',
   text='TLC checks on every tree of a bounded instance that replaying the markers of the reference reading (stack simulation) gives back the writing node of every triple, the pushed variable and the written-inverted flag (MC_Interpret: MarkersReplayWalk, PushedIsOpened, InvertedIffWritten); recorded node_contexts / get_pushed_variable / appears_inverted of the real code on decoded graphs and their marker-stripped copies are judged by TLC against the ghost variables of the walk.',
   note='marker-less answers beyond "no exception, no pushed variable" are drift',
   technique='TLA+ ghost-variable spec model-checked by TLC + TLC trace validation'),
 'C10': dict(engine='layout', design='5 C10, 4.10',
   text='The naming loop of reset_variables is a TLA+ machine (MC_Relabel): TLC checks bijection, first-free-candidate choice, agreement with the functional plan, the pigeonhole progress measure and termination for every format with an index field; recorded reset_variables executions on corpus and random trees x formats are judged by TLC: the observed map is a bijection, applied at every definition and (aligned) reference and nowhere else, and interpretation commutes with renaming - decided both on the reading of the two trees by the specification and on interpret() of the library itself, applied to the tree before and after the call. In the thorough tier Apalache discharges an inductive invariant of the naming loop (Apa_Relabel: injective for any names and any number of candidates tried, trees of up to 8 nodes).',
   note='F15 (formats without index field never return when two nodes format alike) is an open known finding, detected by a 1-2 s timeout and the specification predicate; the documented prefix (first alphabetic character of the concept, lower-cased, or _) and the depth-first first-free choice of the index gate',
   technique='TLA+ machine of the naming loop model-checked by TLC + TLC trace validation'),
 'C13': dict(engine='model', design='5 C13, 4.4',
   text='TLC checks the role algebra (colon, inversions removed in pairs, normalisation last, defined roles never inverted, involution and flip on inversion-canonical roles, triple laws, idempotence exactly for closed normalisation tables) on every model table over a small role universe x every role base x k inversions (MC_Model); the (table, role) pairs exported by TLC and roles of the default, AMR, no-op, MiniAMR and custom models are run through the real Model methods and canonicalize_roles, and TLC judges every recorded value against the specification functions and the laws. The triple laws are judged on triples whose ends are variables, quoted strings, numbers, None and self-loops.',
   note='O1 roles (undefined role whose inversion the model defines) are outside the algebra; F16 is an open known finding with the specification predicate ~ClosedTable as its signature; regex role patterns other than prefix+digits are not modelled',
   technique='TLA+ role algebra model-checked by TLC over all small model tables + TLC trace validation of recorded Model method results'),
 'C15': dict(engine='graph', design='5 C15, 4.8',
   text='The Graph object is a TLA+ history machine (Graph.tla: Apply): TLC checks partition, edge/attribute split, filters, implicit top, the re-entrancy formula as invariants and top refusal, operands-untouched and the set-algebra clauses as action properties over every pool of two small graphs and every history of two calls (MC_Graph); histories generated by TLC in simulation mode (deeper, larger graphs) are replayed on real Graph objects, and the trace specification J_Graph re-applies the same actions step by step and compares every object and every query after every call.',
   note='markers of triples common to both operands and multiplicity of duplicates from the right operand are drift (O6)',
   technique='TLA+ history machine model-checked by TLC + spec-to-code replay of TLC-simulated histories, validated step by step by a TLC trace specification'),
 'C11': dict(engine='transform', design='5 C11, 4.9',
   text='TLC checks on the specification that reify-then-dereify is the identity on the triples and alignment markers of every graph without a collapsible node, that no reifiable role is left, and that dereification never collapses the top, a referenced node or a node with another relation (MC_Transform: InverseLaw, NeverCollapsesTopOrShared); recorded reify_edges / dereify_edges / encode executions on random graphs over the AMR and MiniAMR inventories are judged by TLC on the stated clauses (fresh variables, top and other triples kept, original triples and identical text restored); start graphs are decoded, rebuilt with an explicit top, or built from triples alone with an edge of the top first.',
   note='preconditions (no collapsible node initially, unambiguous table for the roles used) are specification predicates; model tables are data',
   technique='TLA+ transformation functions model-checked by TLC + TLC trace validation of recorded reify/dereify executions'),
 'C12': dict(engine='transform', design='5 C12, 4.9',
   text='The four transformations are a TLA+ program machine (MC_Transform): TLC checks same top, well-formedness, connectivity after every step of every program (branches indicated at most once) from every small decoded or marker-stripped start graph, and the attribute / branch clauses as action properties; recorded programs of 1-4 transformations of the real code on decoded, hand-built, edited and re-topped graphs are validated step by step by the trace specification J_Transform (no exception, same top, well-formed, connected, encodes and decodes to itself, clause per transformation); exact agreement with the specification functions is reported as drift. Start graphs and intermediate graphs may be deep copies, pickle round trips or results of a set operation.',
   note='graphs using both roles of an ambiguous reification (AMR :subset and :superset) are outside the precondition (O14)',
   technique='TLA+ program machine model-checked by TLC + step-by-step TLC trace validation of recorded transformation programs'),
 'C16': dict(engine='cli', design='5 C16, 4.11',
   text='The run of the tool is a TLA+ machine (MC_CliRun: inputs in order, graphs in order, status accumulated): TLC checks exit = 1 iff --check and some graph of some input is bad, monotonicity of the status, one output per graph in order and termination for every sequence of up to 3 inputs of up to 2 good/bad graphs; every such sequence exported by TLC is run through the real command (files, stdin, subprocess sample) and TLC judges exit status and error-N metadata; Model.errors of the real code on all small and random triple lists x tops x models is judged by TLC against the specification of role validity and weak reachability. The exit status is also judged under --quiet (nothing may be written); role validity is also judged on lists over the own vocabulary of eight custom tables (defined roles, keys and values of normalisation entries, plain and inverted).',
   note='which graphs are bad in the command runs is taken from Model.errors, itself judged in the same check; one metadata entry per offending triple (O8)',
   technique='TLA+ exit-status machine model-checked by TLC + replay of TLC-enumerated input sequences on the real command + TLC trace validation of Model.errors'),
 'C20': dict(engine='cli', design='5 C20, 4.11',
   text='Cli.tla decodes an option record into an argument vector and the documented stage list (order, model and key functions each stage must receive, separators, exit status); TLC checks stage order, model-everywhere, exactly one layout stage and formatting-last over the whole option space (MC_CliOpts) and exports every option set with its plan; a seeded sample is replayed: the harness executes the exported plan with library calls and runs the real command (in-process main(), stdin or 1-2 files, 4% real subprocesses); TLC judges byte equality, exit status, one output per input graph, content invariance under formatting options, content preservation without normalisation options and the fixed-point clause. Every option set within two option values of the empty one over the full value space (Cli!NearDefault) is replayed in both tiers; with --check the texts are compared without the error-N metadata lines and the offending triples those lines name per graph as sets.',
   note='stage semantics are the library functions (covered by their own properties); F17, F19, F23, F24 and F26 are open known findings with specification predicates as signatures; the fixed-point clause is judged on single-stream runs; random keys: exit status only',
   technique='TLA+ model of option decoding and pipeline plumbing model-checked by TLC + spec-to-code replay of exported plans, judged by TLC'),
 'C09': dict(engine='stream', design='5 C09, 4.10',
   text='Stream.tla defines the containers (one string, lines without / with terminators, a text-mode file) as feeders of the same lexer/parser and the stream grammar (COMMENT* Node)*; TLC checks that every text up to a bound over an alphabet with LF, CR, NEL, VT, comments and node syntax has the same outcome in every container, that only LF/CRLF/CR end lines, and that sequences of trees written with every separator (and to a file) read back equal with comments attached to the following graph (MC_Stream); the real loads / load / iterdecode / iterparse on strings, line lists, StringIO and real files, and dumps / dump round trips, are judged by TLC against the specification outcome. Long streams are judged text by text (the reading of a stream is the concatenation of the readings of its graph texts) with line ends, CR LF pairs and graph ends placed on, before and after the block sizes of buffered file reading; dump / load on two paths is a TLA+ state machine (MC_File: read-your-last-write, other path untouched) whose histories are replayed on real files (path, pathlib.Path, open file).',
   note='the OS is not modelled (a file is a text split at LF, CRLF, CR); error positions are C07; graphs in the dumps clause must come from well-formed trees under the model (specification predicate)',
   technique='TLA+ spec of containers and stream framing model-checked by TLC + TLC trace validation of recorded load/dump executions'),
 'C17': dict(engine='purity', design='5 C17, 4.11',
   text='Purity.tla is a history machine over a pool of shared objects with 29 API operations: TLC checks the frame conditions (a pure call changes no pool object, an in-place call changes only its target) and that results are a function of argument values on every history up to a bound, and generates call histories in simulation mode; each history is replayed on real objects under four hash seeds and inside a worker process with snapshots of every pool object before and after every call; TLC validates the frame conditions on the recorded snapshots, function-of-arguments across the history, and identity of all runs; the command is run as a subprocess under four hash seeds and outputs compared by TLC. After every call that returns a plain value the caller changes that value in place and repeats the call (a returned value belongs to the caller); a directed sub-machine (DSpec), enumerated completely by TLC, lets a graph derived from a pool graph meet that graph as the other operand of every binary operation, in both orders. Documented calls with a mutable plain argument, and nine Model methods with the model itself as the observed argument (error paths included), are recorded with the argument before and after.',
   note='hash seeds and processes cannot be modelled: identical histories are replayed and compared; projection excludes the iteration order of the marker dictionary (O6)',
   technique='TLA+ history machine (frame conditions) model-checked by TLC + replay of TLC-simulated call histories under several hash seeds/processes, validated by TLC'),
}
NOT_YET = 'check not built yet (build in progress, see DESIGN.md section 11)'


def main():
    props = [json.loads(l)['id'] for l in open(os.path.join(HERE, 'properties.jsonl'))]
    from harness.main import REGISTRY
    checks = []
    for p in props:
        if p in CHECKS and p in REGISTRY:
            c = CHECKS[p]
            checks.append({
                'property_id': p,
                'quick_cmd': f'./check {p} --tier quick',
                'thorough_cmd': f'./check {p} --tier thorough',
                'evidence_file': f'/verif/evidence/{p}.json',
                'replay_cmd_template': f'./check {p} --replay {{path}}',
                'engine': c['engine'],
                'level_claimed': {'category': 'model_checking', 'text': c['text'], 'design_ref': 'DESIGN.md section ' + c['design']},
                'level_note': c['note'],
                'technique': c['technique'],
            })
    na = [{'property_id': p, 'reason': NOT_YET} for p in props if not (p in CHECKS and p in REGISTRY)]
    engines = {}
    for p, c in CHECKS.items():
        if p in REGISTRY:
            engines.setdefault(c['engine'], []).append(p)
    m = {
        'version': 1,
        'setup_cmd': './setup.sh',
        'hooks': {'guard': 'PENMAN_VERIF',
                  'enable': 'one add-only hook in penman/layout.py (17 lines): with the environment variable PENMAN_VERIF set before penman is '
                            'imported, configure() records its decisions (enter/leave/find/round/end) in layout._verif_events; used only by the '
                            'step-wise validation of C06 (harness/configure_worker.py, spec/Trace_Configure.tla), whose verdicts are drift, never '
                            'violations. Every gating check observes the public API only and imports penman from /repo working tree via '
                            'PYTHONPATH (PENMAN_SRC, default /repo) in a fresh interpreter with bytecode writing off.',
                  'baseline_off_cmd': 'cd /repo && /venv/bin/python -m pytest -ra -q -p no:cacheprovider --timeout=900 --continue-on-collection-errors',
                  'source_commits': ['098e869'], 'add_only': True},
        'engines': [{'name': k, 'path': '/verif/harness', 'serves_properties': sorted(v),
                     'kind_free_text': 'TLA+ specification (spec/*.tla) checked by TLC; Python drives penman and records traces; TLC judges them'}
                    for k, v in sorted(engines.items())],
        'checks': checks,
        'notes': 'Every verdict is computed by TLC 1.8 on the TLA+ specification under /verif/spec; see DESIGN.md. known_findings.json lists fixed and open findings.',
        'not_applicable': na,
    }
    json.dump(m, open(os.path.join(HERE, 'MANIFEST.json'), 'w'), indent=1)
    print(len(checks), 'checks;', len(na), 'not applicable')


if __name__ == '__main__':
    main()
