"""
Replay call histories generated from spec/Purity.tla on real penman objects and log, for every call, the projection
of every pool object before and after the call and the projection of the result.  Run as a separate interpreter so
that PYTHONHASHSEED can be chosen:   python -m harness.purity_worker < histories.ndjson > logs.ndjson
With --mp the calls of each history are executed inside a multiprocessing worker process.
"""
import json
import multiprocessing
import random
import sys

from . import drive as dr
from . import gen
from .abstraction import atom, marker, triple, flatten_tree

penman = dr.penman
layout, transform, surface = dr.layout, dr.transform, dr.surface
MODEL = dr.get_model('amr')
DEFAULT = dr.get_model('default')
NOOP = dr.get_model('noop')


def proj(o):
    """Everything about an object that can influence a later result or a printed byte."""
    if isinstance(o, penman.Tree):
        return json.dumps(['tree', flatten_tree(o.node, o.metadata)], ensure_ascii=True)
    if isinstance(o, penman.Graph):
        epi = sorted(([triple(k), [marker(e) for e in v]] for k, v in o.epidata.items()), key=lambda kv: json.dumps(kv[0]))
        return json.dumps(['graph', [triple(t) for t in o.triples], atom(o._top), epi, list(map(list, o.metadata.items()))], ensure_ascii=True)
    return json.dumps(['value', o], ensure_ascii=True, default=str, sort_keys=isinstance(o, dict))


class Unreadable(Exception):
    """Reading a pool object or a result through the library's own accessors raised: the object is broken, the worker is not."""


def rproj(o):
    try:
        return proj(o)
    except Exception as e:  # noqa
        raise Unreadable(type(e).__name__)


def plain(x):
    """Projection of a returned plain value (sets are compared as sets, dicts as key-sorted lists)."""
    if isinstance(x, (set, frozenset)):
        return sorted((plain(y) for y in x), key=json.dumps)
    if isinstance(x, dict):
        return sorted(([plain(k), plain(v)] for k, v in x.items()), key=json.dumps)
    if isinstance(x, (list, tuple)):
        return [plain(y) for y in x]
    if isinstance(x, (str, int, float, bool)) or x is None:
        return x
    return str(x)


def initial_pool(seed):
    rng = random.Random(f'purity:{seed}')
    # includes roles / concepts with more than one reification entry (:poss, :beneficiary; include-91): which one is taken
    # must not depend on the hash seed
    roles = [':ARG0', ':ARG1', ':ARG2', ':mod', ':domain', ':polarity', ':quant', ':op1', ':op2', ':accompanier', ':time', ':foo', ':poss',
             ':beneficiary', ':subset']
    cfg = gen.TreeCfg(wellformed=True, roles=roles, concepts=['dog', 'bark-01', 'have-mod-91', 'x', 'accompany-01', 'include-91', 'own-01'], max_nodes=6,
                      vars=['a', 'b', 'c', 'd', 'e', 'x', 'y', '_'], p_meta=0.5, exotic_symbols=0.0, p_missing_target=0.0)
    trees = []
    while len(trees) < 4:
        node, meta = gen.random_tree(rng, cfg)
        trees.append(penman.Tree(node, metadata=meta))
    g3 = layout.interpret(trees[2], MODEL)
    g4 = layout.interpret(trees[3], MODEL)
    if seed % 4 == 1:
        # a graph that holds a reified node whose concept is aligned while its second relation carries no role alignment,
        # and an aligned reifiable edge: what dereify_edges / reify_edges move markers between
        g4 = penman.decode('(a / alpha :ARG1-of (_ / have-mod-91~2 :ARG2 (b / beta)) :mod~e.3 (c / gamma~4 :polarity -) '
                           ':ARG0-of (o / own-01~e.7 :ARG1 b))', model=MODEL)
    elif seed % 4 == 2:
        g3 = transform.reify_edges(g3, MODEL)          # reified nodes exactly as the library writes them
    if rng.random() < 0.5 and seed % 4 != 1:
        # a graph built by hand: no markers at all, no explicit top, triples in an arbitrary order (top triple first)
        rest = list(g4.triples[1:])
        rng.shuffle(rest)
        g4 = penman.Graph(list(g4.triples[:1]) + rest)
    return [trees[0], trees[1], g3, g4]


def call(op, args, pool, rng):
    a = [pool[i - 1] for i in args]
    m = MODEL
    if op == 'interpret':
        return layout.interpret(a[0], m)
    if op == 'configure':
        return layout.configure(a[0], model=m)
    if op == 'reconfigure':
        return layout.reconfigure(a[0], model=m, key=m.canonical_order)
    if op == 'format':
        return penman.format(a[0], indent=-1)
    if op == 'encode':
        return penman.encode(a[0], model=m)
    if op == 'decode_encode':
        return penman.decode(penman.encode(a[0], model=m), model=m)
    if op == 'default_roundtrip':
        return penman.decode(penman.encode(a[0], model=DEFAULT), model=DEFAULT)
    if op == 'noop_roundtrip':
        return penman.decode(penman.encode(a[0], model=NOOP), model=NOOP)
    if op == 'relayout':
        # the same triples under another layout: other markers on (mostly) the same triples
        return layout.interpret(layout.reconfigure(a[0], model=m, key=m.canonical_order), m)
    if op == 'copy_graph':
        import copy
        return copy.deepcopy(a[0])
    if op == 'canonicalize_roles':
        return transform.canonicalize_roles(a[0], m)
    if op == 'reify_edges':
        return transform.reify_edges(a[0], m)
    if op == 'dereify_edges':
        return transform.dereify_edges(a[0], m)
    if op == 'reify_attributes':
        return transform.reify_attributes(a[0])
    if op == 'indicate_branches':
        return transform.indicate_branches(a[0], m)
    if op == 'queries':
        g = a[0]
        return [g.top, g.variables(), g.instances(), g.edges(), g.attributes(), g.reentrancies()]
    if op == 'errors':
        return list(m.errors(a[0]).items())   # the order of the report is observable (error-N numbering of --check)
    if op == 'diagnostics':
        g = a[0]
        return [layout.node_contexts(g), [layout.appears_inverted(g, t) for t in g.triples], [layout.get_pushed_variable(g, t) for t in g.triples]]
    if op == 'alignments':
        return [surface.alignments(a[0]), surface.role_alignments(a[0])]
    if op == 'triples':
        codec = penman.PENMANCodec(model=m)
        ts = [t for t in a[0].triples if isinstance(t[0], str) and isinstance(t[2], str)]
        return codec.parse_triples(codec.format_triples(ts, indent=bool(len(ts) % 2)))
    if op == 'tree_nodes':
        return [[n[0] for n in a[0].nodes()], [list(p) for p, _ in a[0].walk()]]
    if op == 'union':
        return a[0] | a[1]
    if op == 'difference':
        return a[0] - a[1]
    if op == 'union_inplace':
        a[0] |= a[1]
        return None
    if op == 'difference_inplace':
        a[0] -= a[1]
        return None
    if op == 'set_top':
        vs = sorted(v for v in a[0].variables() if isinstance(v, str))
        a[0].top = vs[-1] if vs else None
        return None
    if op == 'add_marker':
        g = a[0]
        if g.triples:
            t = g.triples[len(g.triples) // 2]
            g.epidata.setdefault(t, []).append(surface.Alignment((9,), prefix='e.'))
        return None
    if op == 'rearrange':
        layout.rearrange(a[0], key=m.canonical_order, attributes_first=True)
        return None
    if op == 'reset_variables':
        a[0].reset_variables('{prefix}{j}')
        return None
    raise ValueError(op)


InPlaceOps = {'union_inplace', 'difference_inplace', 'set_top', 'add_marker', 'rearrange', 'reset_variables'}
POOLED = {'interpret', 'configure', 'reconfigure', 'decode_encode', 'default_roundtrip', 'noop_roundtrip', 'copy_graph', 'relayout', 'canonicalize_roles', 'reify_edges', 'dereify_edges',
          'reify_attributes', 'indicate_branches', 'union', 'difference'}


def scribble(x):
    """What a caller may do to a value it was handed: change it in place, all the way down."""
    if isinstance(x, list):
        for y in x:
            scribble(y)
        x.append(('scribbled', ':by', 'the-caller'))
        if len(x) > 1:
            x[0] = x[-1]
    elif isinstance(x, dict):
        for y in list(x.values()):
            scribble(y)
        x['scribbled'] = ['by the caller']
    elif isinstance(x, set):
        x.clear()
        x.add('scribbled')


NOISE = False
_NOISE_TEXTS = ['(a / alpha :ARG0-of (b / beta) :mod 7)', '# ::id n\n(x / x :polarity - :ARG1 (y / y :ARG0 x))', '(d / dog :consist-of-of (e / e))']


def noise(rng):
    """Unrelated calls on objects of their own, between the calls of a history (C17: identical across interleavings with other
    calls): other texts, other models - among them models that compare equal to each other."""
    from penman.model import Model
    from penman.models.noop import NoOpModel
    k = rng.randrange(6)
    text = _NOISE_TEXTS[rng.randrange(len(_NOISE_TEXTS))]
    m = [Model(), NoOpModel(), MODEL, DEFAULT, NOOP][rng.randrange(5)]
    try:
        if k == 0:
            penman.encode(penman.decode(text, model=m), model=m)
        elif k == 1:
            m.errors(penman.decode(text))
        elif k == 2:
            penman.parse_triples(penman.format_triples(penman.decode(text).triples))
        elif k == 3:
            list(penman.iterdecode(text + '\n\n' + text, model=m))
        elif k == 4:
            transform.reify_attributes(transform.reify_edges(penman.decode(text, model=MODEL), MODEL))
        else:
            penman.loads(penman.dumps([penman.decode(text, model=m)], model=m), model=m)
    except penman.exceptions.PenmanError:
        pass


def replay(h, pool=None):
    pool = initial_pool(h['pool_seed']) if pool is None else pool
    rng = random.Random(0)
    steps = []
    for c in h['hist']:
        if NOISE:
            noise(rng)
        before = [rproj(o) for o in pool]
        again = None
        rng.seed(json.dumps(c))
        try:
            ok, r = dr.guarded(call, c['op'], c['args'], pool, rng)
        except Exception as e:  # noqa
            ok, r = False, e
        if ok:
            if c['op'] in POOLED:
                pool.append(r)
                res = rproj(r)
            else:
                res = json.dumps(['value', plain(r)], ensure_ascii=True)
                if not InPlaceOps.__contains__(c['op']):
                    # the caller owns what it was handed: after it has changed that value in place, the same call gives the same answer
                    scribble(r)
                    try:
                        ok2, r2 = dr.guarded(call, c['op'], c['args'], pool, rng)
                    except Exception as e:  # noqa
                        ok2, r2 = False, e
                    again = json.dumps(['value', plain(r2)], ensure_ascii=True) if ok2 else 'EXC:' + type(r2).__name__
        else:
            res = 'EXC:' + type(r).__name__
            if c['op'] in POOLED:
                pool.append(penman.Graph() if dr_result_type(c['op']) == 'graph' else penman.Tree(('x', [])))
        after = [rproj(o) for o in pool]
        steps.append({'before': before, 'after': after, 'result': res, 'again': again if again is not None else res})
    return steps


def dr_result_type(op):
    return 'tree' if op in ('configure', 'reconfigure', 'canonicalize_roles') else 'graph'


def _mp_replay(job):
    # the pool was built in the parent and arrives here pickled: its markers are no longer the parent's singletons
    h, pool = job
    return safe_replay(h, pool)


def safe_replay(h, pool=None):
    try:
        return replay(h, pool)
    except Unreadable as e:
        return {'exc': 'a result or an object of the pool cannot be read any more (%s)' % e, 'steps': []}


def main():
    global NOISE
    NOISE = '--noise' in sys.argv
    use_mp = '--mp' in sys.argv
    hs = [json.loads(l) for l in sys.stdin if l.strip()]
    if use_mp:
        with multiprocessing.get_context('fork').Pool(2) as p:
            logs = p.map(_mp_replay, [(h, initial_pool(h['pool_seed'])) for h in hs])
    else:
        logs = [safe_replay(h) for h in hs]
    for log in logs:
        sys.stdout.write(json.dumps(log, ensure_ascii=True) + '\n')


if __name__ == '__main__':
    main()
