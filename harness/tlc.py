"""
Running TLC: model checking of MC_* instances, trace judging with J_* modules,
export of cases from the specification.  Every verdict of every check is
computed by TLC; this module only starts it and reads what it printed.
"""
import json
import os
import re
import shutil
import subprocess
import sys
import time
from concurrent.futures import ThreadPoolExecutor

VERIF = os.path.dirname(os.path.dirname(os.path.abspath(__file__)))
SPEC = os.path.join(VERIF, 'spec')
WORK = os.path.join(VERIF, 'work')
JAR = '/opt/veriftools/tla/tla2tools.jar:/opt/veriftools/tla/CommunityModules-deps.jar'


class MachineryError(Exception):
    """TLC crashed, could not parse a module, timed out ... never a verdict."""


def workdir(name):
    d = os.path.join(WORK, f'{name}.{os.getpid()}')
    shutil.rmtree(d, ignore_errors=True)
    os.makedirs(d, exist_ok=True)
    return d


_STAT = re.compile(r'(\d+) states generated, (\d+) distinct states found')


def run_tlc(module, cfg=None, env=None, workers=4, heap='3g', timeout=1800,
            extra=(), tag=None, simulate=None):
    """Run TLC on spec/<module>.tla; return dict(out, states, distinct, wall, rc)."""
    tag = tag or module
    meta = workdir('tlc_' + tag)
    # StateDeque: TLC's in-memory state queue.  The default disk-backed queue serialises queued states with one byte per
    # character, so every character >= U+0080 in a state variable comes back corrupted (sign-extended low byte, e.g.
    # U+00E9 -> U+FFE9) once the queue spills; the specification's alphabets contain NBSP, NEL, U+3000, e-acute ...
    cmd = ['java', '-Djava.io.tmpdir=' + meta, '-Dtlc2.tool.queue.IStateQueue=StateDeque', '-XX:+UseParallelGC', '-XX:ParallelGCThreads=4', '-Xmn512m',
           f'-Xmx{heap}', '-Xss64m',
           '-cp', JAR, 'tlc2.TLC', '-workers', str(workers), '-metadir', meta,
           '-noGenerateSpecTE', '-deadlock', '-checkpoint', '0']     # (StateDeque cannot be checkpointed: a run of 30 min would stop)
    if cfg:
        cmd += ['-config', cfg]
    if simulate:
        cmd += ['-simulate', simulate]
    cmd += list(extra) + [module]
    e = dict(os.environ)
    e.update(env or {})
    t0 = time.time()
    try:
        p = subprocess.run(cmd, cwd=SPEC, env=e, capture_output=True, text=True,
                           timeout=timeout)
    except subprocess.TimeoutExpired as ex:
        raise MachineryError(f'TLC timed out after {timeout}s on {module}') from ex
    finally:
        shutil.rmtree(meta, ignore_errors=True)
    out = p.stdout + p.stderr
    m = None
    for m in _STAT.finditer(out):
        pass
    res = dict(out=out, rc=p.returncode, wall=time.time() - t0,
               states=int(m.group(1)) if m else 0,
               distinct=int(m.group(2)) if m else 0)
    return res


def tlc_failed(res):
    """True if TLC itself failed (parse error, evaluation error, crash)."""
    o = res['out']
    if 'Model checking completed. No error has been found.' in o:
        return False
    if 'Finished computing initial states' in o and 'Error:' not in o and res['rc'] == 0:
        return False
    return True


def _unquote(s):
    # TLC prints strings with \" and \\ escaped; other characters verbatim
    out = []
    i = 0
    while i < len(s):
        c = s[i]
        if c == '\\' and i + 1 < len(s):
            n = s[i + 1]
            out.append({'n': '\n', 't': '\t', 'r': '\r', 'f': '\f'}.get(n, n))
            i += 2
        else:
            out.append(c)
            i += 1
    return ''.join(out)


MAX_BATCH_BYTES = 24 * 1024 * 1024
_VLINE = re.compile(r'^"V\|(\d+)\|([A-Z]+)\|(.*)"$')


def parse_verdicts(out, n):
    """Verdict lines are printed as one string each:  "V|<tid>|<CODE>|<detail>"."""
    v = [None] * n
    for line in out.split('\n'):
        m = _VLINE.match(line.strip())
        if m:
            tid = int(m.group(1))
            v[tid - 1] = (m.group(2), _unquote(m.group(3)))
    return v


def judge(module, traces, tag=None, jvms=4, workers=4, heap='3g', timeout=1800, per_jvm=6000):
    """
    Have TLC judge *traces* (a list of JSON-able dicts) with spec/<module>.tla.
    Returns (verdicts, stats): verdicts[i] = (code, detail), code in
    ACCEPT / REJECT / NA / DRIFT / KNOWN.
    """
    if not traces:
        return [], dict(states=0, distinct=0, wall=0.0)
    tag = tag or module
    d = workdir('judge_' + tag)
    lines = []
    for t in traces:
        bad = find_null(t)
        if bad:
            raise MachineryError(f'JSON null at {bad} in a {t.get("kind")} trace (use the %null sentinel)')
        lines.append(json.dumps(t, ensure_ascii=True))
    # at most *jvms* TLC processes at a time; a batch holds at most ~24 MB of JSON (the deserialised records of a much larger batch
    # do not fit the heap: TLC then spends its time collecting garbage and may stop with an error that blames an innocent record)
    total = sum(len(x) for x in lines)
    k = max(1, min(jvms, (len(traces) + per_jvm - 1) // per_jvm), (total + MAX_BATCH_BYTES - 1) // MAX_BATCH_BYTES)
    size = (len(traces) + k - 1) // k
    chunks = [traces[i:i + size] for i in range(0, len(traces), size)]
    files = []
    for ci in range(len(chunks)):
        fn = os.path.join(d, f'tr{ci}.ndjson')
        with open(fn, 'w', encoding='utf-8') as f:
            for x in lines[ci * size:(ci + 1) * size]:
                f.write(x)
                f.write('\n')
        files.append(fn)
    del lines

    forced = {}      # (chunk, index in chunk) -> verdict given because TLC could not evaluate the record

    def one(ci):
        """
        Judge one chunk.  A recorded observable outside the domain of the specification's operators (a column beyond the end
        of its line, a missing field ...) makes TLC stop with an evaluation error that names the trace; such a trace is a
        mismatch with the specification: it gets a REJECT verdict.  Every verdict printed before the error stands (a verdict
        is a function of its own trace), so only the traces that have none yet are judged again.
        """
        ch = chunks[ci]
        alive = list(range(len(ch)))
        got = {}
        tot = dict(states=0, distinct=0, wall=0.0)
        res = None
        for attempt in range(400):
            res = run_tlc(module, env={'TRACE_FILE': files[ci]}, workers=workers,
                          heap=heap, timeout=timeout, tag=f'{tag}_{ci}')
            for k_ in ('states', 'distinct', 'wall'):
                tot[k_] += res[k_]
            va = parse_verdicts(res['out'], len(alive))
            if not tlc_failed(res):
                for pos, j in enumerate(alive):
                    if va[pos] is not None:
                        got[j] = va[pos]
                return dict(res, got=got, **tot)
            m = re.search(r'Error: The behavior up to this point is:.*?/\\ tid = (\d+)', res['out'], re.S)
            e = re.search(r'Error: (?!The behavior|The error occurred)(.*)', res['out'])
            if not m or 'Parsing or semantic analysis failed' in res['out'] or not (1 <= int(m.group(1)) <= len(alive)):
                return dict(res, got=got, failed=True)
            k = int(m.group(1)) - 1
            bad = alive[k]
            why = (e.group(1).strip() if e else 'evaluation error')[:160]
            x = re.search(r'The exception was a (\S+)\s*\n?: ([^\n]*)', res['out'])
            if x:
                why = (x.group(1).split('.')[-1] + ': ' + x.group(2).strip())[:200]
            forced[(ci, bad)] = ('REJECT', 'recorded observable outside the domain of the specification: ' + why)
            for pos, j in enumerate(alive):
                if va[pos] is not None and j != bad:
                    got[j] = va[pos]
            alive = [j for j in alive if j != bad and j not in got]
            if not alive:
                return dict(res, got=got, **tot)
            with open(files[ci], 'w', encoding='utf-8') as f:
                for j in alive:
                    f.write(json.dumps(ch[j], ensure_ascii=True))
                    f.write('\n')
        # hundreds of records of one chunk were outside the domain of the specification: each of them is a REJECT already;
        # the records not reached are left unjudged (NA) instead of failing the whole run
        for j in alive:
            forced[(ci, j)] = ('NA', 'not judged: the batch was abandoned after 400 records outside the domain of the specification')
        return dict(res, got=got, **tot)

    with ThreadPoolExecutor(max_workers=min(jvms, len(chunks))) as ex:
        results = list(ex.map(one, range(len(chunks))))
    verdicts = []
    stats = dict(states=0, distinct=0, wall=0.0)
    for ci, (ch, res) in enumerate(zip(chunks, results)):
        if res.get('failed'):
            keep = os.path.join(WORK, f'failed_{tag}_{ci}.out')
            with open(keep, 'w') as f:
                f.write(res['out'])
            shutil.copy(files[ci], os.path.join(WORK, f'failed_{tag}_{ci}.ndjson'))
            raise MachineryError(f'TLC failed judging {module} chunk {ci}: see {keep}\n'
                                 + res['out'][-3000:])
        v = [None] * len(ch)
        for j, x in res['got'].items():
            v[j] = x
        for (cj, j), fv in forced.items():
            if cj == ci:
                v[j] = fv
        if any(x is None for x in v):
            missing = [i for i, x in enumerate(v) if x is None][:5]
            keep = os.path.join(WORK, f'failed_{tag}_{ci}.out')
            with open(keep, 'w') as f:
                f.write(res['out'])
            raise MachineryError(f'no verdict for traces {missing} of chunk {ci} ({module}); see {keep}')
        verdicts.extend(v)
        stats['states'] += res['states']
        stats['distinct'] += res['distinct']
        stats['wall'] = max(stats['wall'], res['wall'])
    shutil.rmtree(d, ignore_errors=True)
    return verdicts, stats


_EXPORT = re.compile(r'^"X\|(.*)"$')


def export_cases(module, cfg=None, workers=1, heap='4g', timeout=1800, env=None, tag=None):
    """Run an export instance: every line  "X|<json>"  printed by TLC is one case."""
    res = run_tlc(module, cfg=cfg, workers=workers, heap=heap, timeout=timeout, env=env, tag=tag)
    if tlc_failed(res):
        keep = os.path.join(WORK, f'failed_export_{module}.out')
        os.makedirs(WORK, exist_ok=True)
        with open(keep, 'w') as f:
            f.write(res['out'])
        raise MachineryError(f'TLC failed exporting from {module}: see {keep}\n' + res['out'][-3000:])
    cases = []
    for line in res['out'].split('\n'):
        m = _EXPORT.match(line.strip())
        if m:
            cases.append(json.loads(_unquote(m.group(1))))
    # with several workers TLC prints the cases in a different order on every run: a canonical order makes seeded samples repeatable
    cases.sort(key=lambda x: json.dumps(x, sort_keys=True))
    return cases, res


_COV = re.compile(r'^<(\w+) line \d+, col \d+ to line \d+, col \d+ of module (\w+)(?: \([\d ]+\))?>: (\d+):(\d+)\s*$', re.M)


def action_coverage(out):
    """TLC's coverage statistics (last report of the run): {action: [distinct states found, states generated]}."""
    acts = {}
    for m in _COV.finditer(out):
        acts[m.group(1)] = [int(m.group(3)), int(m.group(4))]
    return acts


def model_check(module, cfg=None, workers=16, heap='8g', timeout=3600, extra=(), env=None, tag=None, idle_ok=(), coverage=True):
    """Exhaustive check of a bounded instance.  Returns the run_tlc dict plus ok / violated / actions.
    Vacuity guard: TLC runs with -coverage; an action of the next-state relation that never generated a state means the
    instance did not exercise it, and the run counts as a machinery failure unless the caller names it in *idle_ok*."""
    res = run_tlc(module, cfg=cfg, workers=workers, heap=heap, timeout=timeout, extra=(('-coverage', '600') if coverage else ()) + tuple(extra), env=env, tag=tag)
    o = res['out']
    res['actions'] = action_coverage(o)
    res['ok'] = 'Model checking completed. No error has been found.' in o
    m = re.search(r'Error: Invariant (\S+) is violated', o) or re.search(r'Error: Action property (\S+) is violated', o) \
        or re.search(r'Error: Temporal properties were violated', o)
    res['violated'] = m.group(0) if m else None
    if not res['ok'] and not res['violated']:
        keep = os.path.join(WORK, f'failed_mc_{module}.out')
        os.makedirs(WORK, exist_ok=True)
        with open(keep, 'w') as f:
            f.write(o)
        raise MachineryError(f'TLC failed model checking {module}: see {keep}\n' + o[-3000:])
    if res['ok'] and coverage:
        if not res['actions']:
            raise MachineryError(f'TLC printed no coverage statistics for {module} ({cfg})')
        idle = sorted(a for a, (d, g) in res['actions'].items() if g == 0 and a not in idle_ok)
        if idle:
            raise MachineryError(f'vacuous instance {module} ({cfg}): action(s) never taken: {", ".join(idle)}')
    return res


if __name__ == '__main__':
    r = run_tlc(sys.argv[1], workers=4)
    print(r['out'][-4000:])


def find_null(x, path=''):
    """JSON null is not representable for TLC's Json module: report where one sits."""
    if x is None:
        return path or '<root>'
    if isinstance(x, dict):
        for k, v in x.items():
            r = find_null(v, f'{path}.{k}')
            if r:
                return r
    elif isinstance(x, (list, tuple)):
        for i, v in enumerate(x):
            r = find_null(v, f'{path}[{i}]')
            if r:
                return r
    return None


def apalache_inductive(module, inv='IndInv', init='Init', indinit='IndInit', goal=None, timeout=600):
    """
    Discharge an inductive invariant with Apalache (unbounded): Init => Inv, Inv /\\ Next => Inv', Inv => goal.
    Returns a dict for the evidence; raises MachineryError if Apalache refutes an obligation.
    """
    exe = shutil.which('apalache-mc')
    if not exe:
        return {'module': module, 'skipped': 'apalache-mc not on PATH'}
    out = workdir('apalache_' + module)
    steps = [('base', ['--init=' + init, '--inv=' + inv, '--length=0']),
             ('step', ['--init=' + indinit, '--inv=' + inv, '--length=1'])]
    if goal:
        steps.append(('goal', ['--init=' + indinit, '--inv=' + goal, '--length=0']))
    t0 = time.time()
    res = {'module': module, 'engine': 'Apalache (symbolic, unbounded inductive check)', 'obligations': []}
    try:
        for name, args in steps:
            try:
                p = subprocess.run([exe, 'check'] + args + ['--out-dir=' + out, module + '.tla'], cwd=SPEC, capture_output=True, text=True,
                                   timeout=timeout)
            except subprocess.TimeoutExpired:
                res['obligations'].append({'name': name, 'result': 'timeout'})
                continue
            ok = 'EXITCODE: OK' in p.stdout
            res['obligations'].append({'name': name, 'result': 'OK' if ok else 'FAILED'})
            if not ok and 'EXITCODE: ERROR (12)' in p.stdout:
                raise MachineryError(f'Apalache refutes obligation {name} of {module}:\n' + p.stdout[-1500:])
    finally:
        shutil.rmtree(out, ignore_errors=True)
    res['wall_s'] = round(time.time() - t0, 1)
    return res
