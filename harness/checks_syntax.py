"""Checks of the textual layer: C08 lexer, C07 parser, C01 format/parse, C18 constants, C19 triple conjunctions."""
import itertools

from . import corpus, gen
from .framework import pmake


def _q(c, quick, thorough):
    return quick if c.tier == 'quick' else thorough


# ------------------------------------------------------------------------ C08
NON_ASCII_DIGITS = ['\u0663', '\u0968', '\uff13', '\u0e53']


def check_C08(c):
    n_mc = _q(c, 3, 4)
    c.mc('MC_Lexer', f'MC_Lexer_{n_mc}.cfg', workers=16, heap='8g')
    alpha = gen.ALPH['lexer'] + gen.ALPH['lexer_impl_extra']
    rot = {'e': 'eaz'[c.seed % 3], 'E': 'EZQ'[c.seed % 3], '0': '019'[c.seed % 3]}
    alpha = [rot.get(x, x) for x in alpha]
    jobs = []
    n_ex = _q(c, 3, 4)
    for s in gen.all_strings(alpha, n_ex):
        jobs.append(('tr_lex', dict(text=s, triple=False)))
        if len(s) < n_ex:
            jobs.append(('tr_lex', dict(text=s, triple=True)))
    # quotes and backslashes: every text up to length 6 / 7 over " \ a blank (terminated, unterminated, escaped, escaped escape)
    for s in gen.all_strings(['"', '\\', 'a', ' '], _q(c, 6, 7), 2):
        jobs.append(('tr_lex', dict(text=s, triple=False)))
    # the inside of an alignment (tilde, prefix letter, period, digits, commas) next to blanks and symbols, and the seams
    # between role, symbol, alignment and parenthesis: every text up to length 5 / 6 over two small alphabets
    for small in (['~', 'e', '.', '1', ',', ' ', 'a'], [':', 'a', '-', '~', '1', ' ', '(']):
        for s in gen.all_strings(small, _q(c, 5, 6), 2):
            jobs.append(('tr_lex', dict(text=s, triple=False)))
    # a decimal digit outside ASCII (Arabic-Indic, Devanagari, fullwidth, Thai - one per seed) is a name character like any
    # letter: the documented alignment takes [0-9] only.  Every text up to length 5 / 6 over the alignment alphabet that has one.
    xd = NON_ASCII_DIGITS[c.seed % len(NON_ASCII_DIGITS)]
    for s in gen.all_strings(['~', 'e', '.', '1', xd, ',', 'a'], _q(c, 5, 6), 2):
        if xd in s:
            jobs.append(('tr_lex', dict(text=s, triple=False)))
    # sample of the next lengths
    for ln, cnt in _q(c, [(4, 4000), (5, 2500), (6, 1500)], [(5, 150000), (6, 60000), (7, 30000)]):
        for s in gen.sample_strings(c.rng, alpha, ln, cnt):
            jobs.append(('tr_lex', dict(text=s, triple=c.rng.random() < 0.3)))
    # long random lines, corpus, mutated corpus; both containers
    texts = corpus.strings()
    for _ in range(_q(c, 1500, 40000)):
        r = c.rng.random()
        if r < 0.4:
            texts.append(gen.random_text(c.rng, 40))
        elif r < 0.7:
            texts.append(''.join(c.rng.choice(alpha) for _ in range(c.rng.randint(6, 200))))
        else:
            texts.append(gen.mutate_text(c.rng, c.rng.choice(texts)))
    for s in texts:
        jobs.append(('tr_lex', dict(text=s, triple=False)))
        if c.rng.random() < 0.3:
            jobs.append(('tr_lex', dict(text=s, triple=True)))
        if c.rng.random() < 0.5:
            keep = c.rng.random() < 0.5
            jobs.append(('tr_lex', dict(lines=s.splitlines(keep) if False else _lines(s, keep), triple=False)))
    traces = pmake(jobs, optimized_share=0.02)
    c.judge('J_Syntax', traces, 'lex', nontrivial=lambda t: len(t['toks']) >= 2)
    c.rule = ('every text up to length %d over the %d-character lexer alphabet (both token patterns) plus seeded samples of '
              'longer texts, random lines up to 200 characters, the strings of tests/ and docs/ and mutations of them, as one '
              'string and as a list of lines; non-trivial = at least two tokens; distinct by input' % (n_ex, len(alpha)))
    c.exhaustive = False
    c.bounds = {'mc_max_len': n_mc, 'impl_exhaustive_len': n_ex, 'alphabet': len(alpha)}
    c.assumptions += ['VT/FF inside a quoted string is not judged (documentation excludes them from StrChar; O5)',
                      'astral code points are not generated']


def _lines(s, keep):
    """Split at LF / CRLF / CR only, as a text file iterator would."""
    import re
    parts = re.split(r'(\r\n|\r|\n)', s)
    lines = []
    for i in range(0, len(parts), 2):
        body = parts[i]
        term = parts[i + 1] if i + 1 < len(parts) else ''
        if body == '' and term == '' and i > 0:
            break
        lines.append(body + (term if keep else ''))
    return lines


# ------------------------------------------------------------------------ C07
def check_C07(c):
    n_mc = _q(c, 5, 7)
    c.mc('MC_Parser', f'MC_Parser_{n_mc}.cfg', workers=16, heap='8g')
    jobs = []
    # (a) every token-type sequence, one token per line, through parse and iterparse
    n_ty = _q(c, 4, 5)
    for n in range(0, n_ty + 1):
        for tys in itertools.product(gen.TOKEN_TYPES, repeat=n):
            s = gen.render_types(tys)
            jobs.append(('tr_parse', dict(text=s)))
            if n <= n_ty - 1:
                jobs.append(('tr_parse', dict(text=s, fn='iterparse')))
    # (b) every text over the delimiter alphabet
    alpha = gen.ALPH['parser']
    n_ex = _q(c, 3, 4)
    for s in gen.all_strings(alpha, n_ex):
        jobs.append(('tr_parse', dict(text=s)))
        jobs.append(('tr_ptriples', dict(text=s)))
    for s in gen.all_strings(['"', '\\', 'a', ' '], _q(c, 5, 6), 1):
        jobs.append(('tr_parse', dict(text='(a :r ' + s + ')')))
    for ln, cnt in _q(c, [(4, 4000), (5, 3000), (6, 2000)], [(5, 150000), (6, 80000), (7, 40000)]):
        for s in gen.sample_strings(c.rng, alpha, ln, cnt):
            jobs.append(('tr_parse', dict(text=s, fn=c.rng.choice(['parse', 'iterparse']))))
            if c.rng.random() < 0.3:
                jobs.append(('tr_ptriples', dict(text=s)))
    # (c) valid graphs damaged at token level, corpus, deep nesting, unicode
    base = corpus.graph_strings()
    import penman
    for _ in range(_q(c, 300, 6000)):
        node, meta = gen.random_tree(c.rng, gen.TreeCfg(wellformed=False, max_nodes=10))
        try:
            base.append(penman.format(penman.Tree(node, metadata=meta), indent=c.rng.choice([None, -1, 0, 2])))
        except Exception:
            pass
    texts = list(base) + [c.rng.choice(gen.MULTIKEY_HEADERS) + s for s in base[:120]]
    for _ in range(_q(c, 2500, 60000)):
        s = c.rng.choice(base)
        for _ in range(c.rng.randint(1, 3)):
            s = gen.mutate_text(c.rng, s)
        texts.append(s)
    for _ in range(_q(c, 500, 10000)):
        texts.append(gen.random_text(c.rng, 25))
    # alignments written with decimal digits outside ASCII: not alignments (the '~' is then an unexpected character)
    for xd in NON_ASCII_DIGITS:
        for t in ('(a / b~e.%s)', '(a :r~1,%s b)', '(a / b :ARG0~%s c)', '(a / b~e.1%s)', '(a / b~%s,2 :r c)', '(a :r b~x.%s1 )', '(a / %s)', '(a :op%s b)'):
            texts.append(t % xd)
    for d in _q(c, [1, 2, 50, 200], [1, 2, 3, 10, 50, 100, 150, 199, 200]):
        node = gen.deep_tree(c.rng, d)
        s = penman.format(penman.Tree(node), indent=None)
        texts += [s, s[:-1], s[:len(s) // 2], s + ')', s.replace(' / ', ' / / ', 1)]
    for s in texts:
        jobs.append(('tr_parse', dict(text=s)))
        if c.rng.random() < 0.5:
            jobs.append(('tr_parse', dict(text=s, fn='iterparse')))
        if c.rng.random() < 0.15:
            jobs.append(('tr_parse', dict(lines=_lines(s, c.rng.random() < 0.5), fn='iterparse')))
    # triple conjunctions: valid ones damaged
    tbase = ['instance(a, b)', 'instance(b, bark) ^\nARG0(b, d) ^\ninstance(d, dog)', 'role(a,b)', 'role(a ,b)', 'role(a , b)',
             'role(a, )', 'role(a)', 'role(a b)', 'r(a, "x y")', 'r(a, "q") ^ s(b, c)', 'a(b,c)^d(e,f)', 'a(b,c) ^d(e,f)',
             ':r(a, b)', 'r(a,b,c)', 'r(a,,b)', 'r(a , , b)', 'r("a", b)', '^r(a,b)', 'r(a,b) ^', 'r(a,b) ^ ^ s(c,d)']
    for s in tbase:
        jobs.append(('tr_ptriples', dict(text=s)))
    for _ in range(_q(c, 1500, 30000)):
        s = c.rng.choice(tbase)
        for _ in range(c.rng.randint(1, 2)):
            s = gen.mutate_text(c.rng, s)
        jobs.append(('tr_ptriples', dict(text=s)))
    traces = pmake(jobs, optimized_share=0.02)
    c.judge('J_Syntax', traces, 'parse', nontrivial=lambda t: True)
    c.rule = ('every token-type sequence up to length %d (one token per line), every text up to length %d over the %d-character '
              'delimiter alphabet through parse and parse_triples, seeded samples of longer texts, damaged valid graphs and '
              'conjunctions, nesting up to 200 levels; each through parse / iterparse (string and list-of-lines); distinct by input'
              % (n_ty, n_ex, len(alpha)))
    c.bounds = {'mc_max_tokens': n_mc, 'impl_token_sequences': n_ty, 'impl_exhaustive_len': n_ex}
    c.assumptions += ['a call that does not return within 5 s counts as a hang (violation)',
                      'nesting deeper than 200 levels is not examined']


# ------------------------------------------------------------------------ C01
INDENTS = [None, -1, 0, 1, 2, 3, 5, 8]


def check_C01(c):
    c.mc('MC_Format', _q(c, 'MC_Format_q.cfg', 'MC_Format_t.cfg'), workers=16, heap='8g')
    jobs = []
    # S->C: the trees TLC enumerated, under every option pair of the instance
    from . import tlc
    cases, res = tlc.export_cases('MC_Format', cfg=_q(c, 'MC_FormatX_q.cfg', 'MC_FormatX_t.cfg'), workers=4, heap='6g')
    c.states += res['distinct']
    c.transitions += res['states']
    c.mc_runs.append(dict(module='MC_Format (export run)', distinct_states=res['distinct'], states_generated=res['states'],
                          wall_s=round(res['wall'], 1), exported=len(cases)))
    from .abstraction import unflatten_tree
    for case in cases:
        node, meta = unflatten_tree(case['tree'])
        jn = gen.node_to_json(node)
        pairs = [(i_, c_) for i_ in (None, -1, 0, 3) for c_ in (False, True)]
        if c.tier == 'quick':
            pairs = c.rng.sample(pairs, 2)
        for ind, cp in pairs:
            jobs.append(('tr_format', dict(node=jn, meta=meta, indent=ind, compact=cp, via_codec=(ind == 0))))
    n_exported = len(jobs)
    # C->S: random trees far beyond the bound
    for i in range(_q(c, 600, 20000)):
        big = i % 10 == 0
        cfg = gen.TreeCfg(wellformed=False, max_nodes=40 if big else 9, max_depth=30 if big else 5,
                          max_width=8 if big else 4, p_colonless=0.01, p_empty_node=0.05, p_pynum=0.3)
        node, meta = gen.random_tree(c.rng, cfg)
        jn = gen.node_to_json(node)
        for ind, cp in c.rng.sample([(i_, c_) for i_ in INDENTS for c_ in (False, True)], _q(c, 3, 6)):
            jobs.append(('tr_format', dict(node=jn, meta=meta, indent=ind, compact=cp, via_codec=c.rng.random() < 0.2,
                                           shape='list' if len(jobs) % 13 == 5 else None)))
    for d in _q(c, [60], [100, 200]):
        jobs.append(('tr_format', dict(node=gen.node_to_json(gen.deep_tree(c.rng, d)), meta={}, indent=-1, compact=False)))
    # fixed-point clause on accepted input strings
    texts = corpus.graph_strings()
    alpha = gen.ALPH['parser']
    texts += list(gen.all_strings(alpha, _q(c, 3, 4)))
    for _ in range(_q(c, 1500, 30000)):
        texts.append(gen.mutate_text(c.rng, c.rng.choice(texts[:200])))
    # comment lines carrying several keys (the usual AMR header style)
    for s in list(texts[:150]):
        if s.lstrip().startswith('('):
            texts.append(c.rng.choice(gen.MULTIKEY_HEADERS) + s)
    for s in texts:
        ind, cp = c.rng.choice(INDENTS), c.rng.random() < 0.5
        jobs.append(('tr_fixpoint', dict(text=s, indent=ind, compact=cp)))
    traces = pmake(jobs, optimized_share=0.02)
    c.judge('J_Syntax', traces, 'format', nontrivial=lambda t: (t['kind'] == 'format' and len(t['tree']['br']) >= 2) or
            (t['kind'] == 'fixpoint' and t['out']['ok']))
    c.rule = ('trees enumerated by TLC (MC_Format export run) x 8 option pairs (2 sampled per tree in the quick tier), random grammar-valid trees (depth up to 30, strings with '
              'delimiters and escapes, alignments, missing concepts/targets, empty nodes, metadata) x sampled options from '
              'indent in {None,-1,0,1,2,3,5,8} x compact; fixed-point clause on corpus, all texts up to length %d over the '
              'delimiter alphabet and mutations; non-trivial = at least two branches / accepted input' % _q(c, 3, 4))
    c.bounds = {'exported_tree_option_cases': n_exported}
    c.assumptions += ['non-string atoms are compared by their written form',
                      'exact whitespace of the output is drift, not a violation; token sequence and tree equality gate']


# ------------------------------------------------------------------------ C18
def check_C18(c):
    # no action coverage here: the instance is one initial-state enumeration (every short text) with a single checking step, and
    # TLC's cost bookkeeping for that enumeration does not fit the heap
    c.mc('MC_Constant', _q(c, 'MC_Constant_q.cfg', 'MC_Constant_t.cfg'), workers=16, heap='8g', coverage=False)
    jobs = []
    qa = gen.ALPH['quote'] + gen.ALPH['quote_impl_extra']
    for s in gen.all_strings(qa, _q(c, 3, 4)):
        jobs.append(('tr_quote', dict(s=s)))
    pool = qa + [gen.SC[k] for k in ('cr', 'ff', 'vt', 'bs', 'nel', 'fs', 'nbsp', 'del', 'cjk', 'cyr', 'isp', 'ps', 'bel', 'esc')] + list('xyz01/.,')
    for _ in range(_q(c, 3000, 80000)):
        jobs.append(('tr_quote', dict(s=''.join(c.rng.choice(pool) for _ in range(c.rng.randint(4, 40))))))
    for v in [None, 0, 1, -1, 1.5, 0.0, -0.0, 1e100, 10 ** 30, True, 12, float('inf'), float('-inf'), float('nan'), 1e-7, 123456789.0 * 10 ** 8]:
        jobs.append(('tr_quote', dict(s=v)))
    aa = gen.ALPH['atom']
    for s in gen.all_strings(aa, _q(c, 4, 5), 1):
        jobs.append(('tr_eval', dict(s=s)))
    for s in [None, '']:                       # the two inputs that evaluate to None / are typed Null
        jobs.append(('tr_eval', dict(s=s)))
    for s in ['true', 'false', 'null', 'NaN', 'Infinity', '-Infinity', '[1]', '{}', '[]', '[1,2]', '""', '"\\u00e9"', '"a\\nb"',
              '1e999', '-', '+1', '.5', '5.', '0x10', '1_000', '01', '"\\x"', '"a"b"', '"', '1e', '1e+', 'e5', '--1', '-0.0e-0']:
        jobs.append(('tr_eval', dict(s=s)))
    for ln, cnt in _q(c, [(5, 4000), (6, 3000)], [(6, 100000), (7, 50000), (8, 30000)]):
        for s in gen.sample_strings(c.rng, aa, ln, cnt):
            jobs.append(('tr_eval', dict(s=s)))
    # "every atom text": also texts with the characters string formatting gives a meaning to (the documented error is built
    # from the text) - on the error paths (unbalanced quote, JSON container) and off them
    for s in ['"50%', '%s"', '"%d', '"%(x)s', '%"', '"{}', '{0}"', '"{x', '["%"]', '["%s"]', '[1,"%d"]', '["{}"]', '["{0}",2]', '[true]',
              '[null]', '[false,1]', '%', '%s', '%d%', '{', '}', '{0}', '"%s"', '"{}"', '"100%"', '%%', '"%%']:
        jobs.append(('tr_eval', dict(s=s)))
    fa = aa + list('%sd{}')
    for ln, cnt in _q(c, [(3, 1500), (5, 1500)], [(4, 40000), (6, 40000)]):
        for s in gen.sample_strings(c.rng, fa, ln, cnt):
            jobs.append(('tr_eval', dict(s=s)))
    traces = pmake(jobs, optimized_share=0.02)     # the module asserts on its argument types: results may not depend on that
    c.judge('J_Syntax', traces, 'const', nontrivial=lambda t: len(t['s']) >= 1)
    c.rule = ('quote: every string up to length %d over %d characters (quotes, backslash, controls, line separators, delimiters, '
              'non-ASCII) plus random strings up to 40 characters and numbers/None; evaluate/type: every atom text up to length %d '
              'over 0 1 - + . e E " \\ a plus JSON literals and containers, plus texts with %% s d { } (error paths included); distinct by input' % (_q(c, 3, 4), len(qa), _q(c, 4, 5)))
    c.assumptions += ['numeric values are not compared (TLC has no floats): kinds and types only',
                      'the value of evaluate(quote(s)) is compared with s as strings by TLC']


# ------------------------------------------------------------------------ C19
def _variants(ts):
    """The documented spacing variants of one conjunction (same triples)."""
    out = []
    for comma in (',', ', ', ' ,', ' , '):
        for caret in (' ^', ' ^ ', ' ^\n'):
            out.append(caret.join(f'{r[1:]}({s}{comma}{t})' for s, r, t in ts))
    return out


def _mixed_variants(c, ts, n):
    """The same list with the spacing of every comma and every conjunction sign chosen independently."""
    out = []
    for _ in range(n):
        parts = []
        for i, (s_, r, t) in enumerate(ts):
            parts.append(f'{r[1:]}({s_}{c.rng.choice([",", ", ", " ,", " , "])}{t})')
        text = parts[0]
        for p_ in parts[1:]:
            text += c.rng.choice(['^', ' ^', ' ^ ', ' ^\n', '^ ']) + p_
        out.append(text)
    return out


def check_C19(c):
    c.mc('MC_Triples', _q(c, 'MC_Triples_q.cfg', 'MC_Triples_t.cfg'), workers=16, heap='8g')
    import penman
    jobs = []
    lists = []
    for s in corpus.graph_strings():
        try:
            g = penman.decode(s)
        except Exception:
            continue
        if g.triples and all(isinstance(x, str) for t in g.triples for x in t):
            lists.append([list(t) for t in g.triples])
    syms = ['a', 'b', 'x1', 'bark-01', '-', '+', '1', '0.5', 'é', 'a.b', 'a/b'[:1], 'Z_9', '_', '^x', 'p^q', 'None', 'null', 'True', '1e5', '007']
    strs = ['"q"', '"x y"', '"a,b"', '"(p)"', '"^"', '"a ^ b(c, d)"', '""', '"\\"esc\\""', '", "', '"#"', '"1"']
    # strings whose content ends in an escaped backslash or mixes escaped backslashes and quotes (several per line when indent=False)
    strs += ['"C:\\\\data\\\\"', '"\\\\"', '"a\\\\\\"b"', '"\\\\\\""', '"x\\\\"']
    # characters that str.splitlines() treats as line boundaries but the notation does not: they are string content
    strs += ['"War%sand Peace"' % gen.SC[k] for k in ('ls', 'nel', 'vt', 'ff', 'fs')] + ['"%s"' % gen.SC['ls'], '"a%sb, c%s"' % (gen.SC['nel'], gen.SC['vt'])]
    import json as _json
    strs += [_json.dumps(''.join(c.rng.choice('ab \\"^,()') for _ in range(c.rng.randint(1, 5)))) for _ in range(12)]
    roles = [':instance', ':ARG0', ':ARG1-of', ':op1', ':mod', ':r', ':x-y', ':^up', ':a^b']
    for _ in range(_q(c, 1500, 40000)):
        n = c.rng.randint(1, 6)
        ts = []
        for _ in range(n):
            tgt = c.rng.choice(strs) if c.rng.random() < 0.35 else c.rng.choice(syms)
            ts.append([c.rng.choice(syms[:8]), c.rng.choice(roles), tgt])
        lists.append(ts)
    for ts in lists:
        for ind in (True, False):
            v = _variants([tuple(t) for t in ts]) if len(ts) <= 4 else []
            v = (v if ind else v[:3]) + (_mixed_variants(c, [tuple(t) for t in ts], 3) if len(ts) >= 2 else [])
            jobs.append(('tr_triples', dict(ts=ts, indent=ind, variants=v, via=('module', 'module', 'codec', 'module', 'codec-amr')[len(jobs) % 5])))
    # long conjunctions: more triples than the interpreter has stack frames by default (one triple per line; on one line in
    # the thorough tier - the specification's lexer needs minutes for a line of that length)
    for n, ind in _q(c, [(1100, True)], [(1100, True), (2500, True), (1200, False)]):
        big = [['v%d' % (i % 7), ':r%d' % (i % 3), ('w%d' % (i % 5)) if i % 11 else '"s, (t) ^ %d"' % i] for i in range(n)]
        jobs.append(('tr_triples', dict(ts=big, indent=ind, variants=[], via='module' if n % 200 else 'codec')))
    traces = pmake(jobs, optimized_share=0.02)
    c.judge('J_Syntax', traces, 'triples', nontrivial=lambda t: len(t['ts']) >= 2 or any(x[2].startswith('"') for x in t['ts']))
    c.rule = ('triple lists of every decodable corpus graph and random lists (targets: symbols, numerals, quoted strings with '
              'blanks, commas, parentheses, carets, escapes) x both line styles x the 12 documented spacing variants, through the '
              'module-level functions (3 of 5) or the methods of a codec (default / AMR model); conjunctions of 1100+ triples; '
              'non-trivial = two or more triples or a quoted target; distinct by input')
    c.assumptions += ['sources, roles and symbol targets containing a comma, and the bare symbol ^, are outside the notation (TripleSafe)']


REGISTRY = {'C08': check_C08, 'C07': check_C07, 'C01': check_C01, 'C18': check_C18, 'C19': check_C19}
