"""
Build spec/models.json: the models the specification knows by name.  Model
tables are data (configurations the properties quantify over), not behaviour:
the AMR tables are read from the implementation's model object (the copy in
docs/api/penman.models.amr.rst is stale: it lacks commas and disagrees with
the code on :accompanier), MiniAMR is the table of tests/conftest.py.
"""
import json
import os
import re
import sys

HERE = os.path.dirname(os.path.dirname(os.path.abspath(__file__)))


def role_entry(r, lits, pats):
    m = re.fullmatch(r'(.*)\[0-9\](\+?)', r)
    if m:
        pats.append([m.group(1), 'many' if m.group(2) else 'one'])
    else:
        assert not re.search(r'[\[\]\\.*+?()|^$]', r), r
        lits.append(r)


def from_tables(roles, norms, reifs, noop=False):
    lits, pats = [], []
    for r in roles:
        role_entry(r, lits, pats)
    return {'lits': lits, 'pats': pats, 'noop': noop,
            'norm': [[k, v] for k, v in norms.items()],
            'reifs': [list(x) for x in reifs]}


def amr_from_code():
    """The AMR tables are data (a configuration), read from the implementation's model object."""
    from penman.models import amr
    return from_tables(list(amr.model.roles), dict(amr.model.normalizations),
                       [(r, c, s_, t) for r, lst in amr.model.reifications.items() for (c, s_, t) in lst]
                       if False else list(amr.reifications))


MINI = from_tables(
    [':ARG0', ':ARG1', ':accompanier', ':domain', ':consist-of', ':mod', ':op[0-9]+'],
    {':mod-of': ':domain', ':domain-of': ':mod'},
    [(':accompanier', 'accompany-01', ':ARG0', ':ARG1'), (':mod', 'have-mod-91', ':ARG1', ':ARG2')])


def build():
    return {
        'default': from_tables([], {}, []),
        'noop': from_tables([], {}, [], noop=True),
        'miniamr': MINI,
        'amr': amr_from_code(),
    }


def main():
    path = os.path.join(HERE, 'spec', 'models.json')
    models = build()
    old = None
    if os.path.exists(path):
        with open(path) as f:
            old = json.load(f)
    if old != models:
        with open(path, 'w') as f:
            json.dump(models, f, indent=0, ensure_ascii=True)
        print('models.json (re)written')
    print({k: (len(v['lits']), len(v['pats']), len(v['norm']), len(v['reifs'])) for k, v in models.items()})


if __name__ == '__main__':
    sys.path.insert(0, os.environ.get('PENMAN_SRC', '/repo'))
    main()
