"""
Check framework: collects model-checking runs and judged traces for one
property, applies the known-findings file, writes evidence and replay files,
prints VIOLATION / KNOWN-FINDING lines and decides the exit status.

Exit status: 0 held (or only listed known findings), 1 violation, 2 machinery
failure (never reported as a violation).
"""
import hashlib
import logging
import json
import multiprocessing
import os
import random
import sys
import time
import traceback

from . import tlc

logging.disable(logging.CRITICAL)
VERIF = tlc.VERIF
# runs against a patched copy (PENMAN_SRC set to something else than /repo: sensitivity experiments) never touch the
# registered evidence files
_EXPERIMENT = os.path.realpath(os.environ.get('PENMAN_SRC', '/repo')) != os.path.realpath('/repo')
EVID = os.path.join(VERIF, 'work', 'experiment-evidence') if _EXPERIMENT else os.path.join(VERIF, 'evidence')
REPLAY = os.path.join(VERIF, 'work', 'experiment-replay.%d' % os.getpid()) if _EXPERIMENT else os.path.join(VERIF, 'work', 'replay')


def load_findings():
    with open(os.path.join(VERIF, 'known_findings.json')) as f:
        return json.load(f)


def strip_private(t):
    return {k: v for k, v in t.items() if not k.startswith('_')}


def thash(t):
    return hashlib.sha1(json.dumps(strip_private(t), sort_keys=True).encode()).hexdigest()


CRASHES = []      # driver calls in which the library raised an exception that is not one of its own (collected by pmake / make)


def _library_crash(e):
    """'<Class> at <file>:<line> in <function>' if the innermost frame of *e* is library code; None otherwise (then it is the
    harness that failed)."""
    src = os.path.realpath(os.environ.get('PENMAN_SRC', '/repo'))
    tb = e.__traceback__
    while tb.tb_next is not None:
        tb = tb.tb_next
    fn = os.path.realpath(tb.tb_frame.f_code.co_filename)
    if not fn.startswith(src + os.sep):
        return None
    # (the library's own exception classes included: a driver guards every call whose documented answer may be an error, so
    # one that escapes was raised on an input on which the driver's property promises a result)
    return '%s at %s:%d in %s' % (type(e).__name__, os.path.relpath(fn, src), tb.tb_lineno, tb.tb_frame.f_code.co_name)


def _call(job):
    from . import drive  # imported in the worker
    name, kw = job
    try:
        t = getattr(drive, name)(**kw)
    except Exception as e:  # noqa
        where = _library_crash(e)
        if where is None:
            raise
        # every driver feeds inputs inside its property's quantifier, on which the library returns or raises one of its
        # documented errors; anything else escaping from library code is reported as a violation, not as a harness failure
        return {'kind': 'crash', 'driver': name, 'exc': where, '_drv': [name, kw]}
    t['_drv'] = [name, kw]
    return t


def _sift(traces):
    keep = []
    for t in traces:
        (CRASHES if t.get('kind') == 'crash' else keep).append(t)
    return keep


def make(name, **kw):
    """Run driver *name* in this process and attach the replay recipe."""
    return _call((name, kw))


def _optimized(jobs):
    """Run *jobs* in one interpreter started with -O (the library's asserts and `if __debug__` blocks are gone there)."""
    import subprocess
    env = dict(os.environ, PYTHONPATH=os.environ.get('PENMAN_SRC', '/repo'), PYTHONDONTWRITEBYTECODE='1')
    p = subprocess.run([sys.executable, '-O', '-B', '-m', 'harness.opt_worker'], input=json.dumps(jobs), capture_output=True, text=True,
                       env=env, cwd=VERIF, timeout=3600)
    if p.returncode != 0:
        raise tlc.MachineryError('the -O worker failed: ' + p.stderr[-2000:])
    out = [json.loads(l) for l in p.stdout.splitlines() if l.strip()]
    if len(out) != len(jobs):
        raise tlc.MachineryError('the -O worker returned %d traces for %d jobs' % (len(out), len(jobs)))
    for t in out:
        t['_opt'] = True          # so that a replay runs the case under -O again
    return out


def pmake(jobs, procs=None, chunksize=64, optimized_share=0.0):
    """Run many driver jobs [(name, kwargs), ...] in worker processes (fork).  optimized_share: that share of the jobs (every
    n-th) runs in an interpreter started with -O instead - a result may not depend on assertions being enabled."""
    if not jobs:
        return []
    if optimized_share > 0 and not os.environ.get('VERIF_COVER'):
        step = max(1, int(round(1 / optimized_share)))
        idx = list(range(0, len(jobs), step))
        opt = _optimized([jobs[i] for i in idx])
        rest = pmake([j for i, j in enumerate(jobs) if i % step], procs=procs, chunksize=chunksize)
        return _sift(opt) + rest
    procs = procs or min(16, max(1, len(jobs) // 200))
    if os.environ.get('VERIF_COVER'):
        procs = 1          # line coverage is collected in this process
    if procs <= 1:
        return _sift([_call(j) for j in jobs])
    ctx = multiprocessing.get_context('fork')
    with ctx.Pool(procs) as pool:
        return _sift(pool.map(_call, jobs, chunksize=chunksize))


class Check:
    def __init__(self, pid, tier, seed, level='model_checking'):
        self.pid = pid
        self.tier = tier
        self.seed = seed
        self.level = level
        self.rng = random.Random(f'{pid}:{seed}')
        self.t0 = time.time()
        self.mc_runs = []
        self.states = 0
        self.transitions = 0
        self.n_traces = 0
        self.counts = {}
        self.by_label = {}
        self.rejects = []      # (trace, verdict, module)
        self.known = {}        # finding id -> [example detail, count]
        self.samples = []
        self.distinct = set()
        self.nontrivial = set()
        self.assumptions = []
        self.dont_care = {}
        self.notes = []
        self.exhaustive = False
        self.bounds = {}
        self.rule = ''

    # ---------------------------------------------------------------- MC
    def mc(self, module, cfg=None, must_hold=True, **kw):
        """Model-check a bounded instance of the specification itself."""
        if _EXPERIMENT and os.environ.get('VERIF_SKIP_MC'):
            # sensitivity experiments on patched copies of the library: the bounded instances do not depend on the code
            return {'ok': True, 'distinct': 0, 'states': 0, 'violated': None, 'out': '', 'wall': 0.0}
        res = tlc.model_check(module, cfg=cfg, **kw)
        self.states += res['distinct']
        self.transitions += res['states']
        run = dict(module=module, cfg=cfg or module + '.cfg', states_generated=res['states'],
                   distinct_states=res['distinct'], wall_s=round(res['wall'], 1), ok=res['ok'],
                   violated=res['violated'], actions_distinct_generated=res.get('actions', {}))
        self.mc_runs.append(run)
        if must_hold and not res['ok']:
            keep = os.path.join(tlc.WORK, f'mc_violation_{module}.out')
            with open(keep, 'w') as f:
                f.write(res['out'])
            raise tlc.MachineryError(
                f'the specification instance {module} ({cfg}) violates its own property '
                f'({res["violated"]}); the specification is wrong, not the code: see {keep}')
        return res

    # -------------------------------------------------------------- traces
    def judge(self, module, traces, label, nontrivial=None, jvms=4, keep_samples=2, timeout=3600, gating=True):
        if not traces:
            return []
        verdicts, st = tlc.judge(module, [strip_private(t) for t in traces], tag=f'{self.pid}_{label}',
                                 jvms=jvms, timeout=timeout)
        self.states += st['distinct']
        self.transitions += st['states']
        self.n_traces += len(traces)
        lab = self.by_label.setdefault(label, {})
        if not gating:
            # agreement with internal structure of the specification (step-wise machine): reported, never a violation
            verdicts = [('DRIFT', 'step-wise machine disagreement: ' + v[1]) if v[0] == 'REJECT' else v for v in verdicts]
        for t, v in zip(traces, verdicts):
            code = v[0]
            self.counts[code] = self.counts.get(code, 0) + 1
            lab[code] = lab.get(code, 0) + 1
            h = thash(t)
            self.distinct.add(h)
            if code in ('ACCEPT', 'DRIFT', 'KNOWN', 'REJECT') and (nontrivial is None or nontrivial(t)):
                self.nontrivial.add(h)
            if code == 'REJECT':
                self.rejects.append((t, v, module))
            elif code == 'KNOWN':
                fid = v[1].split(' ', 1)[0]
                e = self.known.setdefault(fid, [v[1], 0, t, module])
                e[1] += 1
            elif code == 'NA':
                self.dont_care[v[1]] = self.dont_care.get(v[1], 0) + 1
            elif code == 'DRIFT':
                self.dont_care['drift: ' + v[1]] = self.dont_care.get('drift: ' + v[1], 0) + 1
        for t in traces[:keep_samples]:
            self.samples.append({'label': label, 'trace': _trim(strip_private(t))})
        # vacuity guard for trace batches: if (almost) every trace falls outside the precondition of the judged clauses the
        # batch decided nothing, and the generators or the precondition predicate are wrong
        decided = sum(n for code, n in lab.items() if code != 'NA')
        if len(traces) >= 50 and decided * 10 < len(traces):
            raise tlc.MachineryError(f'vacuous batch {label!r} judged by {module}: only {decided} of {len(traces)} traces were inside '
                                     f'the precondition of the judged clauses ({lab})')
        return verdicts

    # -------------------------------------------------------------- finish
    def finish(self):
        findings = load_findings()
        open_ids = {f['finding']: f for f in findings['open'] if f['property'] == self.pid}
        violations = []
        os.makedirs(REPLAY, exist_ok=True)
        for fid, (detail, n, t, module) in self.known.items():
            if fid in open_ids:
                print(f'KNOWN-FINDING: property={self.pid} {fid} {open_ids[fid]["what"]} '
                      f'[{n} case(s) matched its signature; e.g. {detail}]')
            else:
                self.rejects.append((t, ('REJECT', 'judge reported unlisted finding ' + detail), module))
        for t in CRASHES:
            self.counts['REJECT'] = self.counts.get('REJECT', 0) + 1
            self.rejects.append((t, ('REJECT', 'library-call-raises-undocumented-exception ' + t['exc'].split(' at ')[0] + ' @ ' + t['exc']), 'crash'))
        groups = {}
        for t, v, module in self.rejects:
            groups.setdefault((module, v[1].split(' @ ')[0]), []).append(t)
        for k, ((module, clause), ts) in enumerate(sorted(groups.items(), key=lambda kv: kv[0])):
            path = os.path.join(REPLAY, f'{self.pid}-{self.tier}-{self.seed}-{k}.json')
            with open(path, 'w') as f:
                json.dump({'property': self.pid, 'module': module, 'clause': clause, 'count': len(ts),
                           'seed': self.seed, 'tier': self.tier,
                           'cases': [{'drv': t.get('_drv'), 'opt': bool(t.get('_opt')), 'trace': strip_private(t)} for t in ts[:20]]}, f, indent=1)
            violations.append((clause, len(ts), path))
        wall = time.time() - self.t0
        cov = {
            'states': max(self.states, 0),
            'transitions': max(self.transitions, 0),
            'traces_validated_against_impl': self.n_traces,
            'samples': self.samples[:12] or [{'note': 'no trace-level samples in this run'}],
            'evaluations': self.n_traces,
            'distinct_nontrivial': len(self.nontrivial),
            'distinct_cases': len(self.distinct),
            'rule': self.rule,
            'exhaustive': self.exhaustive,
            'bounds': self.bounds,
            'model_checking_runs': self.mc_runs,
            'verdicts': self.counts,
            'verdicts_by_batch': self.by_label,
            'not_judged_or_drift': self.dont_care,
            'known_findings_matched': {k: v[1] for k, v in self.known.items()},
            'notes': self.notes,
        }
        ev = {'property_id': self.pid, 'tier': self.tier, 'seed': self.seed, 'level': self.level,
              'coverage': cov, 'assumptions': self.assumptions, 'wall_s': round(wall, 2),
              'violations': sum(n for _, n, _ in violations)}
        os.makedirs(EVID, exist_ok=True)
        with open(os.path.join(EVID, f'{self.pid}.json'), 'w') as f:
            json.dump(ev, f, indent=1, ensure_ascii=True)
        for clause, n, path in violations:
            print(f'VIOLATION property={self.pid} replay={path}  ({n} case(s): {clause})')
        print(f'{self.pid} {self.tier} seed={self.seed}: {self.n_traces} traces judged by TLC {self.counts}, '
              f'{self.states} distinct spec states, {len(violations)} violated clause(s), {wall:.1f}s')
        return 1 if violations else 0


def _trim(x, n=400):
    s = json.dumps(x, ensure_ascii=True)
    if len(s) <= n:
        return x
    return {'trimmed': s[:n] + '...'}


def main(registry):
    import argparse
    ap = argparse.ArgumentParser()
    ap.add_argument('pid')
    ap.add_argument('--tier', default=os.environ.get('VERIF_TIER', 'quick'))
    ap.add_argument('--seed', type=int, default=int(os.environ.get('VERIF_SEED', '0') or 0))
    ap.add_argument('--replay')
    a = ap.parse_args()
    if a.tier not in ('quick', 'thorough'):
        a.tier = 'quick'
    os.environ['VERIF_RUN_ID'] = '%s.%d' % (a.pid, os.getpid())
    try:
        if a.replay:
            return replay(a.pid, a.replay)
        fn = registry[a.pid]
        c = Check(a.pid, a.tier, a.seed)
        fn(c)
        return c.finish()
    except tlc.MachineryError as e:
        print(f'MACHINERY-FAILURE {a.pid}: {e}', file=sys.stderr)
        return 2
    except Exception:  # noqa
        traceback.print_exc()
        print(f'MACHINERY-FAILURE {a.pid}: unexpected exception in the harness', file=sys.stderr)
        return 2
    finally:
        import shutil
        shutil.rmtree(os.path.join(tlc.WORK, 'scratch.' + os.environ['VERIF_RUN_ID']), ignore_errors=True)


def replay(pid, path):
    """Re-run the recorded cases on the current tree and have TLC judge them again."""
    with open(path) as f:
        r = json.load(f)
    traces = []
    if r['module'] == 'crash':
        bad = 0
        for c in r['cases']:
            t = make(c['drv'][0], **c['drv'][1])
            print('REJECT ' + t['exc'] if t.get('kind') == 'crash' else 'no exception', json.dumps(c['drv'])[:300])
            bad += t.get('kind') == 'crash'
        if bad:
            print(f'VIOLATION property={pid} replay={path}')
        return 1 if bad else 0
    for c in r['cases']:
        if c.get('drv') and c.get('opt'):
            traces.extend(_optimized([c['drv']]))
        elif c.get('drv'):
            traces.append(make(c['drv'][0], **c['drv'][1]))
        else:
            traces.append(c['trace'])
    crashed = [t for t in traces if t.get('kind') == 'crash']
    traces = [t for t in traces if t.get('kind') != 'crash']
    for t in crashed:
        print('REJECT library-call-raises-undocumented-exception ' + t['exc'], json.dumps(t.get('_drv'))[:300])
    verdicts, _ = tlc.judge(r['module'], [strip_private(t) for t in traces], tag=f'replay_{pid}') if traces else ([], None)
    bad = len(crashed)
    for t, v in zip(traces, verdicts):
        print(v[0], v[1], json.dumps(t.get('_drv'))[:300])
        if v[0] == 'REJECT':
            bad += 1
    if bad:
        print(f'VIOLATION property={pid} replay={path}')
        return 1
    return 0
