"""Checks of the tree <-> graph layer: C04, C02, C14 (interpret / round trip / diagnostics), C03, C06 (encode),
C05 (re-layout), C10 (relabelling)."""
from . import corpus, gen, tlc
from .abstraction import unflatten_tree
from .framework import pmake

MODELS4 = ['default', 'amr', 'noop', 'miniamr']

# custom role tables (data): literal and pattern roles, roles ending in -of by definition, normalisations
CUSTOM = [
    {'lits': [':R-of', ':S', ':x-y'], 'pats': [[':op', 'many'], [':ARG', 'one']], 'noop': False,
     'norm': [[':S-of', ':T'], [':T-of', ':S']], 'reifs': [[':S', 'ess-01', ':ARG1', ':ARG2']]},
    {'lits': [':r', ':consist-of', ':mod', ':domain', ':quant'], 'pats': [[':snt', 'many']], 'noop': False,
     'norm': [[':mod-of', ':domain'], [':domain-of', ':mod']], 'reifs': [[':mod', 'have-mod-91', ':ARG1', ':ARG2'],
                                                                      [':quant', 'have-quant-91', ':ARG1', ':ARG2']]},
    # role-table keys are regular expressions: here several roles (two of them ending in -of by definition) are declared
    # through alternation keys on the implementation side ('rx'); the specification reads them as the literals they match
    {'lits': [':consist-of', ':prep-on-behalf-of', ':mod', ':domain', ':time', ':name', ':R'], 'pats': [[':ARG', 'one'], [':op', 'many']],
     'rx': [[':(consist|prep-on-behalf)-of', [':consist-of', ':prep-on-behalf-of']], [':(mod|domain|time)', [':mod', ':domain', ':time']]],
     'noop': False, 'norm': [[':mod-of', ':domain'], [':domain-of', ':mod']], 'reifs': [[':mod', 'have-mod-91', ':ARG1', ':ARG2']]},
]


def _q(c, quick, thorough):
    return quick if c.tier == 'quick' else thorough


def _mdl(c, names=MODELS4, p_custom=0.15):
    if c.rng.random() < p_custom:
        return dict(model='custom', mdl=c.rng.choice(CUSTOM))
    return dict(model=c.rng.choice(names))


def _export_trees(c, module, cfg):
    cases, res = tlc.export_cases(module, cfg=cfg, workers=4, heap='6g')
    c.states += res['distinct']
    c.transitions += res['states']
    c.mc_runs.append(dict(module=module + ' (export run)', cfg=cfg, distinct_states=res['distinct'],
                          states_generated=res['states'], wall_s=round(res['wall'], 1), exported=len(cases)))
    out = []
    for case in cases:
        node, meta = unflatten_tree(case['tree'])
        out.append((gen.node_to_json(node), meta, case.get('model', 'default')))
    return out


def _corpus_trees():
    import penman
    out = []
    for s in corpus.graph_strings():
        try:
            for t in penman.iterparse(s):
                out.append((gen.node_to_json(t.node), dict(t.metadata)))
        except Exception:
            pass
    return out


def _random_trees(c, n, wellformed=None, big_every=12):
    for i in range(n):
        wf = (i % 2 == 0) if wellformed is None else wellformed
        big = big_every and i % big_every == 0
        cfg = gen.TreeCfg(wellformed=wf, max_nodes=30 if big else 8, max_depth=12 if big else 5, max_width=5 if big else 4)
        node, meta = gen.random_tree(c.rng, cfg)
        yield gen.node_to_json(node), meta


# ------------------------------------------------------------------------ C04
def check_C04(c):
    c.mc('MC_Interpret', _q(c, 'MC_Interpret_q.cfg', 'MC_Interpret_t.cfg'), workers=8, heap='8g')
    jobs = []
    for jn, meta, model in _export_trees(c, 'MC_Interpret', _q(c, 'MC_InterpretX_q.cfg', 'MC_InterpretX_t.cfg')):
        jobs.append(('tr_interpret', dict(node=jn, meta=meta, model=model, shape=_shape(jobs))))
    n_exp = len(jobs)
    for jn, meta in _corpus_trees():
        for m in MODELS4:
            jobs.append(('tr_interpret', dict(node=jn, meta=meta, model=m)))
    for jn, meta in _random_trees(c, _q(c, 3000, 60000)):
        jobs.append(('tr_interpret', dict(node=jn, meta=meta, shape=_shape(jobs), **_mdl(c))))
    traces = pmake(jobs, optimized_share=0.02)
    c.judge('J_Layout', traces, 'interpret', nontrivial=lambda t: len(t['tree']['br']) >= 2)
    c.rule = ('trees enumerated by TLC (MC_Interpret export: duplicate definitions, cycles, over-inverted roles, aligned roles and '
              'targets, "~" in strings) x {default, no-op, MiniAMR}; every tree of tests/ and docs/ x 4 models; random trees '
              '(well-formed and ill-formed, up to 30 nodes) x {default, AMR, no-op, MiniAMR, custom tables}; non-trivial = two or '
              'more branches; distinct by (tree, model)')
    c.bounds = {'exported_cases': n_exp}
    c.assumptions += ['layout markers (Push/POP) differing from the reference walk are drift here; they gate in C02 / C14',
                      'alignment indices are compared in normal form (no leading zeros, O9)']


# ------------------------------------------------------------------------ C02
def check_C02(c):
    c.mc('MC_Interpret', 'MC_Interpret_s.cfg', workers=8, heap='6g')
    # graphs decoded from trees carry complete markers: the improvisation loop never has to put a triple back (m4, m5)
    c.mc('MC_Configure', _q(c, 'MC_ConfigureRT_q.cfg', 'MC_ConfigureRT_t.cfg'), workers=8, heap='8g', idle_ok=('m4', 'm5'))
    jobs = []
    for jn, meta, model in _export_trees(c, 'MC_Interpret', _q(c, 'MC_InterpretX_q.cfg', 'MC_InterpretX_t.cfg')):
        jobs.append(('tr_roundtrip', dict(node=jn, meta=meta, model=model)))
    n_exp = len(jobs)
    for jn, meta in _corpus_trees():
        for m in MODELS4:
            jobs.append(('tr_roundtrip', dict(node=jn, meta=meta, model=m)))
    for jn, meta in _random_trees(c, _q(c, 3000, 60000), wellformed=True):
        jobs.append(('tr_roundtrip', dict(node=jn, meta=meta, **_mdl(c))))
    traces = pmake(jobs, optimized_share=0.02)
    c.judge('J_Layout', traces, 'roundtrip', nontrivial=lambda t: len(t['tree']['br']) >= 2)
    c.rule = ('TLC-enumerated trees (well-formedness decided by the specification), corpus trees x 4 models, random well-formed '
              'trees up to 30 nodes with alignments, concept-less nodes, re-entrancies, cycles, inverted attributes, concepts '
              'equal to variable names x {default, AMR, no-op, MiniAMR, custom}; non-trivial = two or more branches')
    c.bounds = {'exported_cases': n_exp}


# ------------------------------------------------------------------------ C14
def check_C14(c):
    c.mc('MC_Interpret', _q(c, 'MC_Interpret_s.cfg', 'MC_Interpret_q.cfg'), workers=8, heap='8g')
    jobs = []
    for jn, meta, model in _export_trees(c, 'MC_Interpret', _q(c, 'MC_InterpretX_q.cfg', 'MC_InterpretX_t.cfg')):
        if model != 'noop':
            jobs.append(('tr_diag', dict(node=jn, meta=meta, model=model)))
    n_exp = len(jobs)
    for jn, meta in _corpus_trees():
        for m in ('default', 'amr'):
            jobs.append(('tr_diag', dict(node=jn, meta=meta, model=m)))
    for jn, meta in _random_trees(c, _q(c, 3000, 60000), wellformed=True):
        jobs.append(('tr_diag', dict(node=jn, meta=meta, model=c.rng.choice(['default', 'amr', 'miniamr']))))
    traces = pmake(jobs, optimized_share=0.02)
    c.judge('J_Layout', traces, 'diag', nontrivial=lambda t: len(t['tree']['br']) >= 2)
    c.rule = ('TLC-enumerated trees, corpus trees, random well-formed trees (deep nesting, concept-less nodes with edges, inverted '
              're-entrancies, several closes on one triple) x {default, AMR, MiniAMR}, each also with its markers stripped; '
              'non-trivial = two or more branches')
    c.bounds = {'exported_cases': n_exp}


# ------------------------------------------------------------------ C03 / C06
def _decoded_graphs(c, n):
    """(tr, epi, vars) of graphs decoded from random well-formed trees (so they carry markers)."""
    import penman
    from penman import layout
    from .abstraction import graph_to_json
    out = []
    for jn, meta in _random_trees(c, n, wellformed=True, big_every=15):
        from .drive import to_node
        try:
            g = layout.interpret(penman.Tree(to_node(jn)))
        except Exception:
            continue
        tr = [[a, b, d] for a, b, d in g.triples]
        j = graph_to_json(g)
        out.append((tr, j['epi'], sorted(v for v in g.variables() if v is not None)))
    return out


def _edit_histories(c, jobs, share):
    """A share of the encode jobs reach their graph by an in-place edit of a live object that has been queried and encoded
    before (drive._edited_graph): one variable of the graph was spelled differently until then."""
    for name, kw in jobs:
        if name == 'tr_encode' and kw.get('tr') and c.rng.random() < share:
            vs = sorted({t[0] for t in kw['tr'] if isinstance(t[0], str)})
            if vs:
                kw['prior'] = c.rng.choice(vs)
        if name == 'tr_encode' and kw.get('epi') and c.rng.random() < share:
            kw['copied'] = c.rng.choice(['deepcopy', 'pickle'])     # markers that are equal to, but not identical with, the module's


def check_C03(c):
    c.mc('MC_Configure', _q(c, 'MC_Configure_q.cfg', 'MC_Configure_t.cfg'), workers=16, heap='8g')
    jobs = []
    for _ in range(_q(c, 2500, 60000)):
        tr, vs = gen.random_graph(c.rng, max_vars=_q(c, 5, 8), max_extra=5, max_attrs=4)
        mk = _mdl(c, ['default', 'amr', 'miniamr'])
        tops = vs if len(vs) <= 3 else c.rng.sample(vs, 3)
        for top in tops + [None]:
            jobs.append(('tr_encode', dict(tr=tr, topreq=top, **mk)))
    # decoded graphs (with markers): shuffled, every variable as top
    for tr, epi, vs in _decoded_graphs(c, _q(c, 600, 15000)):
        mk = _mdl(c, ['default', 'amr', 'miniamr'], 0.1)
        for top in (vs if len(vs) <= 3 else c.rng.sample(vs, 3)):
            jobs.append(('tr_encode', dict(tr=tr, epi=epi, topreq=top, **mk)))
        perm = list(range(len(tr)))
        c.rng.shuffle(perm)
        jobs.append(('tr_encode', dict(tr=[tr[i] for i in perm], epi=[epi[i] for i in perm], topreq=c.rng.choice(vs) if vs else None, **mk)))
    _edit_histories(c, jobs, 0.15)
    traces = pmake(jobs, optimized_share=0.02)
    c.judge('J_Layout', traces, 'encode', nontrivial=lambda t: len(t['g']['tr']) >= 3)
    c.rule = ('random well-formed weakly connected graphs (1-8 variables, symbol/string/int/float/None constants incl. 0, 0.0, -1, '
              'roles ending in -of) in shuffled / reversed / original order x every variable (up to 3) and the default as top x '
              '{default, AMR, MiniAMR, custom}; graphs decoded from random trees (with markers) x tops x one shuffle; '
              'non-trivial = three or more triples; distinct by (graph, top, model)')
    c.assumptions += ['constants are compared by their written form', 'which layout is chosen is not judged, only that it denotes the graph']


def check_C06(c):
    c.mc('MC_Configure', _q(c, 'MC_Configure_q.cfg', 'MC_Configure_t.cfg'), workers=16, heap='8g')
    jobs = []
    for tr, epi, vs in _decoded_graphs(c, _q(c, 900, 20000)):
        if not vs:
            continue
        for _ in range(_q(c, 4, 6)):
            tr2, epi2 = gen.corrupt_markers(c.rng, tr, epi, vs, edits=c.rng.choice([1, 1, 2, 3, 5]))
            jobs.append(('tr_encode', dict(tr=tr2, epi=epi2, topreq=c.rng.choice(vs + [None]), **_mdl(c, ['default', 'amr'], 0.05))))
    # totality / error precision on arbitrary triple lists
    for _ in range(_q(c, 3000, 60000)):
        tr, vs = gen.arbitrary_triples(c.rng)
        epi = None
        if c.rng.random() < 0.5 and tr:
            epi = [[] for _ in tr]
            for _ in range(c.rng.randint(0, 3)):
                k = c.rng.randrange(len(tr))
                epi[k].append(c.rng.choice([{'m': 'pop', 'v': ''}, {'m': 'push', 'v': c.rng.choice(vs)}]))
        jobs.append(('tr_encode', dict(tr=tr, epi=epi, topreq=c.rng.choice(vs + [None, 'k']), xtop=c.rng.choice([None, None] + vs))))
    _edit_histories(c, jobs, 0.2)
    traces = pmake(jobs, optimized_share=0.02)
    c.judge('J_Layout', traces, 'encode', nontrivial=lambda t: len(t['g']['tr']) >= 3)
    _stepwise(c, _q(c, 400, 6000))
    c.rule = ('graphs decoded from random well-formed trees under 1-5 marker/order edits (drop markers, drop all POPs, add Push(v) '
              'for any variable on any triple, duplicate a Push, add POPs, swap marker lists, shuffle triples under fixed markers, '
              'rotate, move a triple, strip a triple) x any variable or the default as top; arbitrary triple lists (ill-formed, '
              'disconnected, duplicates, missing instances) with and without markers for the totality / error-precision clause; '
              'non-trivial = three or more triples')
    c.assumptions += ['a call that does not return within 5 s counts as non-termination (violation)',
                      'error precision on ill-formed lists whose Push markers name non-variables is not judged (O10)']


def _stepwise(c, n):
    """
    Step-wise binding of the PlusCal machine: executions of configure() recorded through the PENMAN_VERIF hook are validated
    event by event against the machine's own actions (Trace_Configure).  Disagreement is drift (internal structure), but the
    binding itself is demonstrated on every run: corrupted copies of accepted traces must be rejected.
    """
    import json
    import os
    import subprocess
    import sys
    jobs = []
    for tr, epi, vs in _decoded_graphs(c, n):
        if not vs or any(not isinstance(t[2], str) and t[2] is not None for t in tr):
            continue
        epi = [[m for m in e if m['m'] in ('push', 'pop')] for e in epi]
        for _ in range(2):
            tr2, epi2 = gen.corrupt_markers(c.rng, tr, epi, vs, edits=c.rng.choice([0, 1, 2, 3]))
            jobs.append({'tr': tr2, 'epi': epi2, 'top': c.rng.choice(vs)})
    env = dict(os.environ, PENMAN_VERIF='1', PYTHONPATH=os.environ.get('PENMAN_SRC', '/repo'), PYTHONDONTWRITEBYTECODE='1')
    p = subprocess.run([sys.executable, '-B', '-m', 'harness.configure_worker'], input=''.join(json.dumps(j) + '\n' for j in jobs),
                       capture_output=True, text=True, env=env, cwd=tlc.VERIF, timeout=1800)
    if p.returncode != 0:
        raise tlc.MachineryError('configure worker failed (is the PENMAN_VERIF hook present in penman/layout.py?): ' + p.stderr[-1500:])
    traces = [json.loads(l) for l in p.stdout.splitlines() if l.strip()]
    if traces and traces[0].get('nohook'):
        c.notes.append('step-wise validation skipped: this copy of penman/layout.py has no PENMAN_VERIF hook')
        return
    if len(traces) != len(jobs):
        raise tlc.MachineryError('configure worker returned %d traces for %d jobs' % (len(traces), len(jobs)))
    for t in traces:
        t['kind'] = 'configure-steps'
    verdicts = c.judge('Trace_Configure', traces, 'stepwise', nontrivial=lambda t: len(t['events']) >= 4, gating=False)
    # sensitivity of the binding: corrupt one recorded field / drop one event of accepted traces
    good = [t for t, v in zip(traces, verdicts) if v[0] == 'ACCEPT' and len(t['events']) >= 3][:60]
    bad = []
    for k, t in enumerate(good):
        u = json.loads(json.dumps(t))
        i = c.rng.randrange(len(u['events']))
        if k % 3 == 0:
            del u['events'][i]
        elif k % 3 == 1:
            u['events'][i]['n'] += 1
        else:
            u['events'][i]['var'] = u['events'][i]['var'] + 'x' if u['events'][i]['ev'] in ('enter', 'leave', 'find') else u['events'][i]['var']
            u['events'][i]['s'] = not u['events'][i]['s']
        bad.append(u)
    if bad:
        vb, st = tlc.judge('Trace_Configure', bad, tag=f'{c.pid}_selftest')
        c.states += st['distinct']
        c.transitions += st['states']
        missed = [i for i, v in enumerate(vb) if v[0] != 'REJECT']
        c.notes.append('binding self-test: %d corrupted step traces (event dropped / counter changed / flag flipped), %d rejected by TLC' % (len(bad), len(bad) - len(missed)))
        if missed:
            raise tlc.MachineryError('the step-wise trace specification accepted %d corrupted traces' % len(missed))
    agree = sum(1 for v in verdicts if v[0] == 'ACCEPT')
    c.notes.append('step-wise agreement of configure() with the PlusCal machine: %d of %d recorded executions' % (agree, len(traces)))


# ------------------------------------------------------------------------ C05
def check_C05(c):
    c.mc('MC_Rearrange', _q(c, 'MC_Rearrange_3.cfg', 'MC_Rearrange_4.cfg'), workers=8, heap='8g')
    jobs = []
    keys = ['none', 'original', 'alphanumeric', 'canonical', 'random']
    trees = list(_random_trees(c, _q(c, 1200, 30000), wellformed=True)) + _corpus_trees()
    for jn, meta in trees:
        for _ in range(2):
            jobs.append(('tr_rearrange', dict(node=jn, meta=meta, key=c.rng.choice(keys + ['inverted-last']), af=c.rng.random() < 0.5,
                                              seed=c.rng.randrange(1000), **_mdl(c, ['default', 'amr', 'miniamr'], 0.1))))
    # roles that exercise the sort keys: numeric suffixes (op2 < op10, op02), digits inside the name, bare numbers, inverted roles
    numroles = [':op1', ':op2', ':op10', ':op02', ':op3', ':ARG0', ':ARG1', ':ARG2', ':ARG10', ':a1b', ':a1b2', ':x2y10', ':x2y9', ':1', ':10',
                ':2', ':op', ':ARG1-of', ':ARG0-of', ':snt2-of', ':snt10-of', ':mod', ':Z', ':a', ':op1-of',
                ':snt1-op10', ':snt1-op2', ':snt1-op02', ':snt2-op1', ':x2y09', ':a1b10', ':a1b02', ':3d10', ':3d9']
    for i in range(_q(c, 700, 15000)):
        cfg = gen.TreeCfg(wellformed=True, roles=numroles, max_nodes=5, max_width=6, max_depth=3, p_aln=0.0, p_invert=0.0, p_meta=0.0,
                          exotic_symbols=0.0, p_string=0.05)
        node, meta = gen.random_tree(c.rng, cfg)
        jobs.append(('tr_rearrange', dict(node=gen.node_to_json(node), meta=meta, key=c.rng.choice(['alphanumeric', 'canonical', 'alphanumeric', 'inverted-last', 'original']),
                                          af=c.rng.random() < 0.4, model=c.rng.choice(['default', 'amr']))))
    for tr, epi, vs in _decoded_graphs(c, _q(c, 700, 15000)):
        if not vs:
            continue
        mk = _mdl(c, ['default', 'amr', 'miniamr'], 0.1)
        for key in c.rng.sample(keys, 2):
            # decoded (explicit top, markers) and hand-built (implicit top, no markers)
            jobs.append(('tr_encode', dict(tr=tr, epi=epi, xtop=tr[0][0], op='reconfigure', key=key, seed=c.rng.randrange(1000), **mk)))
            jobs.append(('tr_encode', dict(tr=tr, op='reconfigure', key=key, seed=c.rng.randrange(1000), **mk)))
        for top in (vs if len(vs) <= 2 else c.rng.sample(vs, 2)):
            jobs.append(('tr_encode', dict(tr=tr, epi=epi, xtop=tr[0][0], topreq=top, **mk)))
            jobs.append(('tr_encode', dict(tr=tr, epi=epi, xtop=tr[0][0], topreq=top, op='reconfigure', key=c.rng.choice(keys), **mk)))
    traces = pmake(jobs, optimized_share=0.02)
    c.judge('J_Layout', traces, 'relayout', nontrivial=lambda t: len(t.get('tree', t.get('g', {})).get('br', t.get('g', {}).get('tr', []))) >= 3)
    c.rule = ('random well-formed trees and corpus trees x keys {none, original, alphanumeric, canonical, inverted-last, random} x '
              'attributes-first for rearrange; graphs decoded from random trees (with markers and explicit top) and their hand-built '
              'copies (no markers, implicit top) x keys for reconfigure; every variable (up to 2) as new top for encode and '
              'reconfigure; models {default, AMR, MiniAMR, custom}; non-trivial = three or more branches / triples')
    c.assumptions += ['ordering of branches whose role carries an alignment suffix or non-ASCII text is not judged (O2)']


# ------------------------------------------------------------------------ C10
def _shape(jobs):
    """One job in 13 hands the library a tree that went through JSON: nested nodes and branches are lists, not tuples."""
    return 'list' if len(jobs) % 13 == 5 else None


FORMATS = [['{prefix}', '{j}'], ['{prefix}', '{i}'], ['x', '{i}'], ['v', '{j}'], ['{prefix}', '_', '{i}'], ['{i}', '{prefix}'],
           ['{prefix}', '{i}', '{j}'], ['n', '{j}', '{prefix}'], ['{prefix}'], ['v'], ['{j}'], ['{i}']]


def check_C10(c):
    c.mc('MC_Relabel', _q(c, 'MC_Relabel_q.cfg', 'MC_Relabel_t.cfg'), workers=8, heap='6g')
    if c.tier == 'thorough':
        # unbounded in the names and in the number of candidates tried: the naming loop keeps the map injective (Apalache)
        from . import tlc as _tlc
        c.mc_runs.append(_tlc.apalache_inductive('Apa_Relabel', goal='Bijection', timeout=1500))
    jobs = []
    trees = _corpus_trees()
    cfgs = [gen.TreeCfg(wellformed=True, p_concept_is_var=0.3, p_aln=0.3, p_reent=0.4),
            gen.TreeCfg(wellformed=True, vars=['a', 'b', 'c', 'a2', 'b2', 'x', 'x2', 'x3', '0', '1', '_', '_2'], concepts=['a', 'b', 'x', 'x2', 'alpha', 'Abc', '1', '"q"', 'é1', '_']),
            gen.TreeCfg(wellformed=True, max_nodes=25, max_depth=10)]
    for i in range(_q(c, 2500, 50000)):
        node, meta = gen.random_tree(c.rng, cfgs[i % 3])
        trees.append((gen.node_to_json(node), meta))
    for jn, meta in trees:
        for fmt in c.rng.sample(FORMATS, 2):
            jobs.append(('tr_relabel', dict(node=jn, meta=meta, fmt=fmt, shape=_shape(jobs), timeout=1.0 if '{' not in ''.join(fmt[-1:]) else 2.0)))
    traces = pmake(jobs, procs=16, optimized_share=0.03)
    c.judge('J_Layout', traces, 'relabel', nontrivial=lambda t: len(t['tree']['br']) >= 2)
    c.rule = ('corpus trees and random well-formed trees (concepts/constants equal to variable names, aligned re-entrancies, '
              'concept-less nodes, non-ASCII concepts, numeric variables) x 2 of 12 formats over {prefix} {i} {j} and literals '
              '(including formats that collide); non-trivial = two or more branches')
    c.assumptions += ['formats without an index field on trees where two nodes format alike never return (known finding F15): run under a 1-2 s timeout',
                      'the exact prefix rule is drift, the bijection / consistency / commutation clauses gate']


REGISTRY = {'C04': check_C04, 'C02': check_C02, 'C14': check_C14, 'C03': check_C03, 'C06': check_C06, 'C05': check_C05,
            'C10': check_C10}
