"""
Drivers: run the real penman (imported from /repo's working tree) on one case
and record every observable as a JSON-able trace for the TLA+ judges.
"""
import io
import copy
import os
import pickle
import signal
import sys

sys.path.insert(0, os.environ.get('PENMAN_SRC', '/repo'))
sys.dont_write_bytecode = True
import logging  # noqa: E402
logging.disable(logging.CRITICAL)
import penman  # noqa: E402
from penman import _lexer, layout, transform, surface, constant  # noqa: E402
from penman.graph import Graph  # noqa: E402
from penman.tree import Tree  # noqa: E402
from penman.exceptions import DecodeError  # noqa: E402

from . import abstraction as ab  # noqa: E402

# optional line coverage of penman by the drivers (blind-spot analysis): VERIF_COVER=<file prefix>
if os.environ.get('VERIF_COVER'):
    import atexit
    import threading
    _COV = set()
    _PREFIX = os.path.realpath(os.environ.get('PENMAN_SRC', '/repo')) + '/penman/'

    def _tracer(frame, event, arg):
        fn = frame.f_code.co_filename
        if not fn.startswith(_PREFIX):
            return None
        if event == 'line' or event == 'call':
            _COV.add((fn[len(_PREFIX):], frame.f_lineno))
        return _tracer

    def _dump():
        with open('%s.%d.json' % (os.environ['VERIF_COVER'], os.getpid()), 'w') as f:
            _json_dump(sorted(_COV), f)
    from json import dump as _json_dump
    atexit.register(_dump)
    sys.settrace(_tracer)
    threading.settrace(_tracer)

assert os.path.realpath(penman.__file__).startswith(os.path.realpath(os.environ.get('PENMAN_SRC', '/repo'))), penman.__file__

CALL_TIMEOUT = 5.0        # seconds of CPU time of this process (a hanging call burns CPU; a descheduled process does not)
WALL_BACKSTOP = 120.0     # wall-clock backstop


class Hang(Exception):
    pass


def _alarm(signum, frame):
    raise Hang()


signal.signal(signal.SIGVTALRM, _alarm)
signal.signal(signal.SIGALRM, _alarm)


def guarded(f, *a, **k):
    """Call f; returns (ok, value-or-exception).  The time limit is on CPU time, so a loaded machine cannot fake a hang."""
    signal.setitimer(signal.ITIMER_VIRTUAL, CALL_TIMEOUT)
    signal.setitimer(signal.ITIMER_REAL, WALL_BACKSTOP)
    try:
        return True, f(*a, **k)
    except Hang:
        return False, Hang('no return within %.0fs of CPU time' % CALL_TIMEOUT)
    except RecursionError as e:
        return False, e
    except Exception as e:  # noqa
        return False, e
    finally:
        signal.setitimer(signal.ITIMER_VIRTUAL, 0)
        signal.setitimer(signal.ITIMER_REAL, 0)


def excname(e):
    return type(e).__name__


def _decode_err(e, out):
    out['ok'] = False
    out['exc'] = excname(e)
    if isinstance(e, DecodeError):
        out['line'] = e.lineno if e.lineno is not None else -1
        out['col'] = e.offset if e.offset is not None else -1
    return out


def to_node(j, shape=None):
    """
    JSON form [var, [[role, target], ...]] (or a tuple already) -> tree node tuple.  With shape='list' the nodes below the top
    and all branches are lists (a tree that went through JSON): the library tells nodes from atoms by what is atomic, so such a
    tree reads exactly like its tuple-shaped twin.
    """
    if shape == 'list':
        def lst(n):
            return [n[0], [[r, lst(t) if isinstance(t, (list, tuple)) else t] for r, t in n[1]]]
        top = lst(j)
        return (top[0], top[1])
    if isinstance(j, tuple):
        return j
    var, branches = j
    return (var, [(r, to_node(t) if isinstance(t, (list, tuple)) else t) for r, t in branches])


# ---------------------------------------------------------------- lexer (C08)
def tr_lex(text=None, triple=False, lines=None):
    pat = _lexer.TRIPLE_RE if triple else _lexer.PENMAN_RE
    src = text if lines is None else lines
    ok, r = guarded(lambda: [ab.token(t) for t in _lexer.lex(src, pattern=pat)])
    t = {'kind': 'lex', 'triple': triple, 'container': 'str' if lines is None else 'seq'}
    if lines is None:
        t['text'] = text
    else:
        t['lines'] = list(lines)
    t['toks'] = r if ok else [{'type': 'EXC:' + excname(r), 'text': '', 'line': 0, 'col': 0}]
    return t


# --------------------------------------------------------------- parser (C07)
def parse_out(text):
    ok, r = guarded(penman.parse, text)
    out = {'ok': True, 'exc': ''}
    if ok:
        out['tree'] = ab.tree_to_json(r)
        return out
    return _decode_err(r, out)


def _other_entry_first(src, own):
    """The three parsing entry points share one lexer: before the call under test, for every other input (by a hash of the
    text), the same text is first given to the *other* entry points, whose answers are discarded.  Each call promises to
    depend on its argument only."""
    key = src if isinstance(src, str) else '\n'.join(src)
    if zlib.crc32(key.encode('utf-8', 'surrogatepass')) % 2:
        return
    for name, fn in (('parse_triples', penman.parse_triples), ('parse', penman.parse),
                     ('iterparse', lambda x: list(penman.iterparse(x)))):
        if name != own:
            guarded(fn, src if name == 'iterparse' or isinstance(src, str) else '\n'.join(src))


def _scribble_tree(t):
    if isinstance(t, Tree):
        t.metadata.clear()
        t.metadata['changed'] = 'by the caller'
        if isinstance(t.node, tuple) and len(t.node) == 2 and isinstance(t.node[1], list):
            t.node[1].insert(0, (':changed', 'by-the-caller'))
            t.node[1][-1] = (':changed', ('c', [('/', 'caller')]))


def _same_call_first(src, fn):
    """What a call returns belongs to the caller.  For every third input (by a hash of the text) the same entry point is first
    given the same text and the caller changes what it got back in place; the call under test must not notice."""
    key = src if isinstance(src, str) else '\n'.join(src)
    if zlib.crc32(('same:' + key).encode('utf-8', 'surrogatepass')) % 3:
        return
    if fn == 'parse':
        ok, r = guarded(penman.parse, src)
        if ok:
            _scribble_tree(r)
    elif fn == 'iterparse':
        ok, r = guarded(lambda: list(penman.iterparse(src)))
        if ok:
            for x in r:
                _scribble_tree(x)
    elif fn == 'parse_triples':
        ok, r = guarded(penman.parse_triples, src)
        if ok and isinstance(r, list):
            r.reverse()
            r.append(('changed', ':by', 'the-caller'))
    elif fn == 'decode':
        ok, r = guarded(penman.decode, src)
        if ok:
            r.triples.reverse()
            r.triples.append(('changed', ':by', 'the-caller'))
            r.epidata.clear()
            r.metadata['changed'] = 'by the caller'


def tr_parse(text=None, fn='parse', lines=None):
    t = {'kind': 'parse', 'fn': fn, 'container': 'str' if lines is None else 'seq'}
    src = text if lines is None else lines
    _other_entry_first(src, fn)
    _same_call_first(src, fn)
    if lines is None:
        t['text'] = text
    else:
        t['lines'] = list(lines)
    if fn == 'parse':
        t['out'] = parse_out(text)
    else:
        trees = []
        out = {'ok': True, 'exc': '', 'trees': trees}

        def run():
            for tr in penman.iterparse(src):
                trees.append(ab.tree_to_json(tr))
        ok, r = guarded(run)
        if not ok:
            _decode_err(r, out)
        t['out'] = out
    return t


def tr_ptriples(text):
    _other_entry_first(text, 'parse_triples')
    _same_call_first(text, 'parse_triples')
    ok, r = guarded(penman.parse_triples, text)
    out = {'ok': True, 'exc': ''}
    if ok:
        out['ts'] = [ab.triple(x) for x in r]
    else:
        _decode_err(r, out)
    return {'kind': 'ptriples', 'text': text, 'out': out}


# ------------------------------------------------------------ formatter (C01)
def tr_format(node, meta, indent, compact, via_codec=False, shape=None):
    """indent: int or None (-2 in the trace)."""
    node = to_node(node, shape)
    ft = ab.check_tree_roundtrip(node, meta)
    t = {'kind': 'format', 'tree': ft, 'indent': -2 if indent is None else indent,
         'compact': compact, 'exc': '', 'text': '', 're': {'ok': False, 'exc': 'not run'}, 'text2': ''}
    tree = Tree(node, metadata=dict(meta or {}))
    if not meta and ft['top'] != ab.NULL and (len(ft['br']) + indent if isinstance(indent, int) else 0) % 3 == 0:
        tree = node          # format() also takes the bare (var, branches) pair, as its docstring shows
    if via_codec:
        codec = penman.PENMANCodec()
        fmt, prs = codec.format, codec.parse
    else:
        fmt, prs = penman.format, penman.parse
    ok, r = guarded(fmt, tree, indent=indent, compact=compact)
    if not ok:
        t['exc'] = excname(r)
        return t
    t['text'] = r
    ok, r2 = guarded(prs, r)
    if ok:
        t['re'] = {'ok': True, 'exc': '', 'tree': ab.tree_to_json(r2)}
        ok3, r3 = guarded(fmt, r2, indent=indent, compact=compact)
        t['text2'] = r3 if ok3 else 'EXC:' + excname(r3)
    else:
        t['re'] = _decode_err(r2, {'ok': False, 'exc': ''})
    return t


def tr_fixpoint(text, indent=-1, compact=False):
    t = {'kind': 'fixpoint', 'text': text, 'out': parse_out(text), 'f1': '', 're1': {'ok': False, 'exc': 'not run'}, 'f2': ''}
    if t['out']['ok']:
        tree = penman.parse(text)
        ok, f1 = guarded(penman.format, tree, indent=indent, compact=compact)
        if ok:
            t['f1'] = f1
            ok, re1 = guarded(penman.parse, f1)
            if ok:
                t['re1'] = {'ok': True, 'exc': '', 'tree': ab.tree_to_json(re1)}
                ok, f2 = guarded(penman.format, re1, indent=indent, compact=compact)
                t['f2'] = f2 if ok else 'EXC:' + excname(f2)
            else:
                t['re1'] = _decode_err(re1, {'ok': False, 'exc': ''})
        else:
            t['f1'] = 'EXC:' + excname(f1)
    return t


# ------------------------------------------------------------- triples (C19)
def _ptri(text, parse=None):
    ok, r = guarded(parse or penman.parse_triples, text)
    if ok:
        return {'ok': True, 'exc': '', 'ts': [ab.triple(x) for x in r]}
    return _decode_err(r, {'ok': False, 'exc': '', 'ts': []})


def tr_triples(ts, indent, variants=(), via='module'):
    """
    ts: list of (src, role, tgt) with str fields; variants: alternative spellings of the same list.  via: the module-level
    functions, or the methods of a codec (default model / AMR model) - the same reading and writing under another name.
    """
    t = {'kind': 'triples', 'ts': [ab.triple(x) for x in ts], 'indent': bool(indent), 'via': via}
    if via == 'module':
        fmt, prs = penman.format_triples, penman.parse_triples
    else:
        codec = penman.PENMANCodec(model=get_model('amr' if via == 'codec-amr' else 'default', None))
        fmt, prs = codec.format_triples, codec.parse_triples
    # the argument is documented as an iterable of triples: every other list is handed over as a one-shot iterator
    arg = iter(ts) if zlib.crc32(_json.dumps(ts).encode()) % 2 else ts
    ok, r = guarded(fmt, arg, indent=indent)
    t['text'] = r if ok else 'EXC:' + excname(r)
    t['back'] = _ptri(t['text'], prs)
    # the list that was returned belongs to the caller: after changing it in place, reading the same text again gives the triples again
    ok2, r2 = guarded(prs, t['text'])
    if ok2 and isinstance(r2, list):
        r2.reverse()
        r2.append(('changed', ':by', 'the-caller'))
    t['back2'] = _ptri(t['text'], prs)
    t['variants'] = [_ptri(v, prs) for v in variants]
    t['variant_texts'] = list(variants)
    return t


# ----------------------------------------------------------- constants (C18)
def _evalkind(x):
    ok, r = guarded(constant.evaluate, x)
    if not ok:
        return ('error' if excname(r) == 'ConstantError' else 'other:' + excname(r)), ''
    if r is None:
        return 'none', ''
    if isinstance(r, bool):
        return 'other:bool', ''
    if isinstance(r, int):
        return 'int', ''
    if isinstance(r, float):
        return ('other:nan' if r != r else 'float'), ''
    if isinstance(r, str):
        return 'str', r
    return 'other:' + type(r).__name__, ''


def _typename(x):
    ok, r = guarded(constant.type, x)
    if not ok:
        return 'error' if excname(r) == 'ConstantError' else 'other:' + excname(r)
    return r.value


def tr_quote(s):
    """s: a str, or a number / None (then the original for comparison is its str form / '')."""
    ok, q = guarded(constant.quote, s)
    orig = '' if s is None else str(s)
    t = {'kind': 'quote', 's': orig, 'q': q if ok else 'EXC:' + excname(q)}
    if not isinstance(s, str):
        okq, q2 = guarded(constant.quote, orig)
        t['same_as_str_form'] = bool(ok and okq and q == q2)
    else:
        t['same_as_str_form'] = True
    t['toks'] = tr_lex(t['q'])['toks']
    k, txt = _evalkind(t['q'])
    t['back'] = {'kind': k, 'text': txt}
    t['type'] = _typename(t['q'])
    return t


def tr_eval(s):
    """s: an atom text, or None (logged as the null sentinel: 'None only for empty/None')."""
    k, txt = _evalkind(s)
    if s is None:
        return {'kind': 'eval', 's': ab.NULL, 'ekind': k, 'type': _typename(s), 'same': True}
    return {'kind': 'eval', 's': s, 'ekind': k, 'type': _typename(s), 'same': (k != 'str') or txt == s or s.startswith('"')}


# ===================================================================== models
import json as _json  # noqa: E402
import zlib  # noqa: E402
import random as _random  # noqa: E402
from penman.model import Model  # noqa: E402
from penman.models import amr as _amr, noop as _noop  # noqa: E402
from penman.exceptions import LayoutError  # noqa: E402

_SPEC = os.path.join(os.path.dirname(os.path.dirname(os.path.abspath(__file__))), 'spec')
with open(os.path.join(_SPEC, 'models.json')) as _f:
    RAW_MODELS = _json.load(_f)


def model_from_raw(raw):
    # 'rx' (implementation side only): some literal roles of the table are declared through one regular-expression key,
    # as the documentation of role tables allows; the specification sees the same roles as literals
    roles = {}
    grouped = set()
    for rx, members in raw.get('rx', []):
        assert set(members) <= set(raw['lits'])
        roles[rx] = {}
        grouped.update(members)
    for lit in raw['lits']:
        if lit not in grouped:
            roles[lit] = {}
    for prefix, mult in raw['pats']:
        roles[prefix + ('[0-9]+' if mult == 'many' else '[0-9]')] = {}
    reifs = [tuple(x) for x in raw['reifs']]
    # the reifications argument is documented as an iterable: every other model is given a one-shot iterator, not a list
    if zlib.crc32(_json.dumps(raw, sort_keys=True).encode()) % 2:
        reifs = iter(reifs)
    kw = dict(roles=roles, normalizations={k: v for k, v in raw['norm']}, reifications=reifs)
    if raw.get('noop'):
        return _noop.NoOpModel(**kw)
    return Model(**kw)


_MODEL_CACHE = {}


def get_model(name, mdl=None):
    if name == 'custom':
        return model_from_raw(mdl)
    if name not in _MODEL_CACHE:
        _MODEL_CACHE[name] = {'default': Model(), 'amr': _amr.model, 'noop': _noop.model}.get(name) or model_from_raw(RAW_MODELS[name])
    return _MODEL_CACHE[name]


def _mfields(t, model, mdl):
    t['model'] = model
    if model == 'custom':
        t['mdl'] = {k: v for k, v in mdl.items() if k != 'rx'}
    return t


def _node_roles(node, acc=None):
    acc = set() if acc is None else acc
    for role, tgt in node[1]:
        if role != '/':
            acc.add(role.partition('~')[0])
        if isinstance(tgt, (list, tuple)):
            _node_roles(tgt, acc)
    return acc


def warm_model(m, roles, salt=''):
    """A model object in use: before the call under test the model's documented queries (which promise no effect) are
    asked about the roles of the input, their inverses and de-inverted forms - for every other input (by a hash of the
    roles), so that fresh and used model objects are both driven."""
    roles = sorted({r if r.startswith(':') else ':' + r for r in roles if isinstance(r, str)})
    if zlib.crc32((salt + '|'.join(roles)).encode('utf-8', 'replace')) % 2:
        return False
    probe = []
    for r in roles:
        probe += [r, r + '-of'] + ([r[:-3]] if r.endswith('-of') else [])
    try:
        for r in probe:
            m.has_role(r)
            m.is_role_inverted(r)
            m.invert_role(r)
            m.canonicalize_role(r)
            m.is_role_reifiable(r)
            m.canonical_order(r)
            m.alphanumeric_order(r)
            m.invert(('p', r, 'q'))
            m.deinvert(('p', r, 'q'))
            m.is_concept_dereifiable(r[1:])
            for probe_call in (lambda: m.reify(('p', r, 'q')),
                               lambda: m.dereify(('x', ':instance', r[1:]), ('x', r, 'p'), ('x', r + '9', 'q'))):
                try:
                    probe_call()        # refusing (ModelError) is a documented answer and must not change the model either
                except Exception:  # noqa
                    pass
        g = Graph([('p', ':instance', 'probe')] + [('p', r, 'q' if i % 2 else 5) for i, r in enumerate(probe)] + [('q', ':instance', None)])
        m.errors(g)
    except Exception:  # noqa
        pass
    return True


def _exc_out(e):
    return {'ok': False, 'exc': 'Hang' if isinstance(e, Hang) else excname(e)}


# ========================================================== interpret (C04)
def tr_interpret(node, meta=None, model='default', mdl=None, shape=None):
    node = to_node(node, shape)
    m = get_model(model, mdl)
    warm_model(m, _node_roles(node), 'tr_interpret')
    t = _mfields({'kind': 'interpret', 'tree': ab.check_tree_roundtrip(node, meta)}, model, mdl)
    ok, g = guarded(layout.interpret, Tree(node, metadata=dict(meta or {})), m)
    if not ok:
        t['out'] = _exc_out(g)
        return t
    out = {'ok': True, 'exc': '', 'g': ab.graph_to_json(g), 'vars': sorted(ab.atom(v) for v in g.variables())}
    ok1, a1 = guarded(surface.alignments, g)
    ok2, a2 = guarded(surface.role_alignments, g)
    if not (ok1 and ok2):
        t['out'] = _exc_out(a1 if not ok1 else a2)
        return t
    out['alns'] = [[ab.triple(k), str(v)[1:]] for k, v in a1.items()]
    out['ralns'] = [[ab.triple(k), str(v)[1:]] for k, v in a2.items()]
    # how every reported marker reads its own text: <<text, prefix, indices as written numbers>>
    out['parts'] = [[str(v)[1:], v.prefix or '', [str(i) for i in v.indices]] for v in list(a1.values()) + list(a2.values())]
    t['out'] = out
    return t


# ========================================================== round trip (C02)
def tr_roundtrip(node, meta=None, model='default', mdl=None):
    node = to_node(node)
    m = get_model(model, mdl)
    warm_model(m, _node_roles(node), 'tr_roundtrip')
    tree = Tree(node, metadata=dict(meta or {}))
    t = _mfields({'kind': 'roundtrip', 'tree': ab.check_tree_roundtrip(node, meta)}, model, mdl)
    t['t2'] = {'ok': False, 'exc': 'not run'}
    t['enc'] = {'ok': False, 'exc': 'not run'}
    ok, g = guarded(layout.interpret, tree, m)
    if not ok:
        t['t2'] = _exc_out(g)
        return t
    ok, t2 = guarded(layout.configure, g, model=m)
    t['t2'] = {'ok': True, 'exc': '', 'tree': ab.tree_to_json(t2)} if ok else _exc_out(t2)
    ok, text = guarded(penman.format, tree, indent=None)
    if ok:
        codec = penman.PENMANCodec(model=m)
        _same_call_first(text, 'decode')
        ok, enc = guarded(lambda: codec.encode(codec.decode(text)))
        t['enc'] = {'ok': True, 'exc': '', 'text': enc} if ok else _exc_out(enc)
    else:
        t['enc'] = _exc_out(text)
    return t


# ================================================= encode / reconfigure (C03 C05 C06)
def build_graph(tr, epi=None, xtop=None, meta=None):
    """tr: [[src, role, tgt]] with JSON-typed targets; epi: list (aligned with tr) of marker dict lists."""
    triples = [(a, b, c) for a, b, c in tr]
    epidata = {}
    if epi:
        for t_, ms in zip(triples, epi):
            if ms is None:
                continue
            lst = []
            for mk in ms:
                if mk['m'] == 'push':
                    lst.append(layout.Push(mk['v']))
                elif mk['m'] == 'pop':
                    lst.append(layout.POP)
                elif mk['m'] == 'align':
                    lst.append(surface.Alignment.from_string(mk['v']))
                elif mk['m'] == 'ralign':
                    lst.append(surface.RoleAlignment.from_string(mk['v']))
            epidata[t_] = lst
    g = Graph(triples, top=None, epidata=epidata, metadata=dict(meta or {}))
    g._top = xtop       # an explicit top, possibly one that the setter would refuse (O11)
    return g


KEYS = {'none': None, 'original': 'original_order', 'alphanumeric': 'alphanumeric_order',
        'canonical': 'canonical_order', 'random': 'random_order', 'inverted-last': 'is_role_inverted'}


def key_fn(m, key, seed=0):
    if key == 'none':
        return None
    if key == 'random':
        _random.seed(seed)
    return getattr(m, KEYS[key])


def _edited_graph(tr, epi, xtop, prior, m):
    """The graph (tr, epi, xtop) reached by an edit history on one live object: the object first holds the same triples with
    variable *prior* spelled differently, is queried and encoded (whatever that answers), and is then edited in place - triple by
    triple, the list keeps its length - into the graph asked for.  What the object answered before the edit is no argument of
    what it is asked afterwards."""
    ren = lambda x: (x + '_0') if x == prior else x      # noqa: E731
    old = [[ren(a), b, ren(c) if isinstance(c, str) else c] for a, b, c in tr]
    g = build_graph(old, epi, ren(xtop) if isinstance(xtop, str) else xtop)
    for q in (g.variables, g.instances, g.edges, g.attributes, g.reentrancies):
        guarded(q)
    guarded(layout.configure, g, model=m)
    guarded(m.errors, g)
    new = build_graph(tr, epi, xtop)
    for i, x in enumerate(new.triples):
        g.triples[i] = x
    g.epidata.clear()
    g.epidata.update(new.epidata)
    g._top = xtop
    return g


def tr_encode(tr, epi=None, xtop=None, topreq=None, model='default', mdl=None, op='configure', key='none', seed=0, prior=None, copied=None):
    m = get_model(model, mdl)
    warm_model(m, [t[1] for t in tr], 'tr_encode')
    if prior is None:
        g = build_graph(tr, epi, xtop)
    else:
        g = _edited_graph(tr, epi, xtop, prior, m)
    if copied == 'deepcopy':      # what Graph.__or__ / __sub__ / reconfigure do to their operand: markers are equal objects, not the same ones
        g = copy.deepcopy(g)
    elif copied == 'pickle':      # a graph that crossed a process boundary
        g = pickle.loads(pickle.dumps(g))
    before = ab.graph_to_json(g)
    t = _mfields({'kind': 'encode', 'g': before, 'topreq': ab.atom(topreq), 'op': op, 'key': key}, model, mdl)
    if op == 'configure':
        ok, tree = guarded(layout.configure, g, top=topreq, model=m)
    else:
        ok, tree = guarded(layout.reconfigure, g, top=topreq, model=m, key=key_fn(m, key, seed))
    t['unchanged'] = ab.graph_to_json(g) == before
    if not ok:
        t['out'] = _exc_out(tree)
        return t
    out = {'ok': True, 'exc': '', 'tree': ab.tree_to_json(tree), 'text': '', 're': {'ok': False, 'exc': 'not run'},
           'g2': {'top': ab.NULL, 'tr': []}}
    ok, text = guarded(penman.format, tree, indent=None)
    if ok:
        out['text'] = text
        ok, re_ = guarded(penman.parse, text)
        if ok:
            out['re'] = {'ok': True, 'exc': '', 'tree': ab.tree_to_json(re_)}
            ok, g2 = guarded(layout.interpret, re_, m)
            if ok:
                out['g2'] = {'top': ab.atom(g2.top), 'tr': [ab.triple(x) for x in g2.triples]}
        else:
            out['re'] = _decode_err(re_, {'ok': False, 'exc': ''})
    # the same through the public entry points penman.encode / penman.decode (and the codec object)
    out['api'] = {'ok': True, 'exc': '', 'text': '', 'codec_text': '', 'g2': {'top': ab.NULL, 'tr': []}}
    if op == 'configure':
        ok, s_api = guarded(penman.encode, g, top=topreq, model=m, indent=None)
        ok2, s_codec = guarded(lambda: penman.PENMANCodec(model=m).encode(g, top=topreq, indent=None))
        if ok and ok2:
            out['api']['text'], out['api']['codec_text'] = s_api, s_codec
            ok3, g3 = guarded(penman.decode, s_api, model=m)
            if ok3:
                out['api']['g2'] = {'top': ab.atom(g3.top), 'tr': [ab.triple(x) for x in g3.triples]}
            else:
                out['api'].update(ok=False, exc='decode:' + excname(g3))
        else:
            out['api'].update(ok=False, exc='encode:' + excname(s_api if not ok else s_codec))
    else:
        out['api'].update(text=out['text'], codec_text=out['text'], g2=out['g2'])
    t['out'] = out
    return t


# ============================================================ rearrange (C05)
def tr_rearrange(node, meta=None, key='none', af=False, model='default', mdl=None, seed=0):
    node = to_node(node)
    m = get_model(model, mdl)
    warm_model(m, _node_roles(node), 'tr_rearrange')
    t = _mfields({'kind': 'rearrange', 'tree': ab.check_tree_roundtrip(node, meta), 'key': key, 'af': bool(af), 'exc': ''}, model, mdl)
    import copy
    tree = Tree(copy.deepcopy(node), metadata=dict(meta or {}))
    ok, r = guarded(layout.rearrange, tree, key=key_fn(m, key, seed), attributes_first=af)
    if not ok:
        t['exc'] = 'Hang' if isinstance(r, Hang) else excname(r)
        t['after'] = t['tree']
    else:
        t['after'] = ab.tree_to_json(tree)
    return t


# ========================================================== diagnostics (C14)
def _diag(g):
    ctx = [ab.atom(x) for x in layout.node_contexts(g)]
    pushed = [ab.atom(layout.get_pushed_variable(g, x)) for x in g.triples]
    inv = [bool(layout.appears_inverted(g, x)) for x in g.triples]
    return ctx, pushed, inv


def tr_diag(node, meta=None, model='default', mdl=None):
    node = to_node(node)
    m = get_model(model, mdl)
    warm_model(m, _node_roles(node), 'tr_diag')
    t = _mfields({'kind': 'diag', 'tree': ab.check_tree_roundtrip(node, meta), 'exc': '', 'ctx': [], 'pushed': [], 'inv': [],
                  'tr': [], 'bare': {'exc': 'not run', 'ctx': [], 'pushed': [], 'inv': []}}, model, mdl)
    ok, g = guarded(layout.interpret, Tree(node, metadata=dict(meta or {})), m)
    if not ok:
        t['exc'] = 'interpret:' + excname(g)
        return t
    t['tr'] = [ab.triple(x) for x in g.triples]
    ok, r = guarded(_diag, g)
    if not ok:
        t['exc'] = 'Hang' if isinstance(r, Hang) else excname(r)
        return t
    t['ctx'], t['pushed'], t['inv'] = r
    bare = Graph(list(g.triples), top=g.top)
    ok, r = guarded(_diag, bare)
    if ok:
        t['bare'] = {'exc': '', 'ctx': r[0], 'pushed': r[1], 'inv': r[2]}
    else:
        t['bare'] = {'exc': 'Hang' if isinstance(r, Hang) else excname(r), 'ctx': [], 'pushed': [], 'inv': []}
    return t


# ============================================================== relabel (C10)
def tr_relabel(node, meta=None, fmt=('{prefix}', '{j}'), model='default', mdl=None, timeout=2.0, shape=None):
    global CALL_TIMEOUT
    node = to_node(node, shape)
    import copy
    t = _mfields({'kind': 'relabel', 'tree': ab.check_tree_roundtrip(node, meta), 'fmt': list(fmt)}, model, mdl)
    tree = Tree(copy.deepcopy(node), metadata=dict(meta or {}))
    old = CALL_TIMEOUT
    CALL_TIMEOUT = timeout
    try:
        ok, r = guarded(tree.reset_variables, ''.join(fmt))
    finally:
        CALL_TIMEOUT = old
    t['out'] = {'ok': True, 'exc': '', 'tree': ab.tree_to_json(tree)} if ok else _exc_out(r)
    # the library's own reading of the tree before and after ("interpreting the relabelled tree equals renaming the
    # interpretation of the original" is a statement about interpret(), not about the specification's reading of the trees)
    t['gi'] = {'ok': False, 'exc': '', 'before': {'top': '', 'tr': []}, 'after': {'top': '', 'tr': []}, 'vars': []}
    if ok:
        m = get_model(model, mdl)
        ok0, g0 = guarded(layout.interpret, Tree(copy.deepcopy(node), metadata=dict(meta or {})), m)
        ok1, g1 = guarded(layout.interpret, tree, m)
        if ok0 and ok1:
            t['gi'] = {'ok': True, 'exc': '', 'before': {'top': ab.atom(g0.top), 'tr': [ab.triple(x) for x in g0.triples]},
                       'after': {'top': ab.atom(g1.top), 'tr': [ab.triple(x) for x in g1.triples]},
                       'vars': sorted(ab.atom(v) for v in g0.variables())}
        elif ok0:
            t['gi']['exc'] = 'Hang' if isinstance(g1, Hang) else excname(g1)
        else:
            t['gi']['exc'] = 'before'
    return t


# ============================================================ role algebra (C13)
def _rolefns(m, x):
    return {'inv': bool(m.is_role_inverted(x)), 'invd': m.invert_role(x), 'invd2': m.invert_role(m.invert_role(x)),
            'inv_of_invd': bool(m.is_role_inverted(m.invert_role(x))), 'has': bool(m.has_role(x))}


def _end(x):
    """An end of a triple as the judge sees it: written form and Python type (ends pass through the role algebra untouched)."""
    return [ab.atom(x), type(x).__name__]


def tr_roles(role, model='default', mdl=None, src='s', tgt='t'):
    """Role algebra on *role*; the triple laws on (src, role, tgt) - the ends may be variables, strings, numbers or None."""
    m = get_model(model, mdl)
    t = _mfields({'kind': 'roles', 'role': role, 'exc': '', 'src': _end(src), 'tgt': _end(tgt)}, model, mdl)
    tr3 = lambda x: [_end(x[0]), x[1], _end(x[2])]   # noqa: E731

    def run():
        canon = m.canonicalize_role(role)
        t['canon'] = canon
        t['canon2'] = m.canonicalize_role(canon)
        t['given'] = _rolefns(m, role)
        t['can'] = _rolefns(m, canon)
        t['tinv'] = tr3(m.invert((src, canon, tgt)))
        t['tdeinv'] = tr3(m.deinvert((src, canon, tgt)))
        t['tcanon'] = tr3(m.canonicalize((src, role, tgt)))
    ok, r = guarded(run)
    if not ok:
        t['exc'] = 'Hang' if isinstance(r, Hang) else excname(r)
        z = {'inv': False, 'invd': '', 'invd2': '', 'inv_of_invd': False, 'has': False}
        t.update({'canon': '', 'canon2': '', 'given': z, 'can': z, 'tinv': [], 'tdeinv': [], 'tcanon': []})
    return t


def tr_canontree(node, meta=None, model='default', mdl=None, shape=None):
    node = to_node(node, shape)
    m = get_model(model, mdl)
    warm_model(m, _node_roles(node), 'tr_canontree')
    t = _mfields({'kind': 'canontree', 'tree': ab.check_tree_roundtrip(node, meta), 'exc': ''}, model, mdl)
    tree = Tree(node, metadata=dict(meta or {}))
    ok, r = guarded(transform.canonicalize_roles, tree, m)
    if not ok:
        t['exc'] = 'Hang' if isinstance(r, Hang) else excname(r)
        t['out'] = t['out2'] = t['tree']
        return t
    t['out'] = ab.tree_to_json(r)
    ok, r2 = guarded(transform.canonicalize_roles, r, m)
    t['out2'] = ab.tree_to_json(r2) if ok else {'top': 'EXC', 'br': [], 'meta': []}
    t['unchanged'] = ab.tree_to_json(tree) == t['tree']
    return t


# ============================================================ Model.errors (C16)
def tr_errors(tr, xtop=None, model='default', mdl=None, decoded_from=None, headroom=None):
    """Either a triple list (+ explicit top) or, with decoded_from, a text to decode first."""
    m = get_model(model, mdl)
    warm_model(m, [t[1] for t in tr or []], 'tr_errors')
    if decoded_from is not None:
        g = penman.PENMANCodec(model=m).decode(decoded_from)
    else:
        g = build_graph(tr, None, xtop)
    t = _mfields({'kind': 'errors', 'g': {'top': ab.atom(g.top), 'xtop': ab.atom(g._top), 'tr': [ab.triple(x) for x in g.triples]},
                  'decoded': decoded_from is not None, 'exc': '', 'errs': []}, model, mdl)
    if headroom:
        # the report is owed for every graph, also one with more nodes than the interpreter has stack frames: the call gets
        # *headroom* frames above the current depth (the graph is far larger than that)
        import inspect
        old_limit = sys.getrecursionlimit()
        sys.setrecursionlimit(len(inspect.stack()) + headroom)
        try:
            ok, r = guarded(m.errors, g)
        finally:
            sys.setrecursionlimit(old_limit)
    else:
        ok, r = guarded(m.errors, g)
    if not ok:
        t['exc'] = 'Hang' if isinstance(r, Hang) else excname(r)
        return t
    t['errs'] = [[[] if k is None else ab.triple(k), list(v)] for k, v in r.items()]
    return t


# ========================================================== Graph histories (C15)
from penman.exceptions import GraphError  # noqa: E402

_GFILTERS = [('a', None, None), (None, ':r', None), (None, None, 'b'), ('b', ':r', 'a'), (None, None, 'x'),
             (None, ':instance', None), ('a', ':instance', 'a'), (None, ':instance', 'b'), (None, None, ''), ('', None, None)]


def _gstate(g):
    j = ab.graph_to_json(g)
    st = {'tr': j['tr'], 'xtop': j['xtop'], 'epi': j['epi'], 'top': j['top'],
          'vars': sorted(ab.atom(v) for v in g.variables()),
          'inst': [ab.triple(x) for x in g.instances()],
          'edges': [ab.triple(x) for x in g.edges()],
          'attrs': [ab.triple(x) for x in g.attributes()],
          'reent': [[ab.atom(k), v] for k, v in sorted(g.reentrancies().items(), key=lambda kv: str(kv[0]))],
          'fe': [[ab.triple(x) for x in g.edges(*f)] for f in _GFILTERS],
          'fa': [[ab.triple(x) for x in g.attributes(*f)] for f in _GFILTERS]}
    return st


def _u(x):
    return None if x == ab.NULL else x


def tr_ghist(acts):
    """acts: [{op, i, j, top, tr, xtop}] with NULL sentinels as exported by TLC."""
    pool = []
    steps = []
    for a in acts:
        res = 'ok'
        try:
            signal.setitimer(signal.ITIMER_VIRTUAL, CALL_TIMEOUT)
            op = a['op']
            if op == 'new':
                triples = [(_u(s), r, _u(t)) for s, r, t in a['tr']]
                n = len(pool) + 1
                epi = {t: [surface.Alignment.from_string(str(n))] for t in triples}
                g = Graph(triples, epidata=epi)
                g._top = _u(a['xtop'])
                pool.append(g)
            elif op == 'settop':
                pool[a['i'] - 1].top = _u(a['top'])
            elif op == 'or':
                pool.append(pool[a['i'] - 1] | pool[a['j'] - 1])
            elif op == 'ior':
                pool[a['i'] - 1] |= pool[a['j'] - 1]
            elif op == 'sub':
                pool.append(pool[a['i'] - 1] - pool[a['j'] - 1])
            elif op == 'isub':
                pool[a['i'] - 1] -= pool[a['j'] - 1]
            elif op == 'edit':
                g, t = pool[a['i'] - 1], tuple(_u(x) for x in a['tr'][0])
                if a['k'] <= len(g.triples):
                    old = g.triples[a['k'] - 1]
                    g.triples[a['k'] - 1] = t
                    if old not in g.triples:
                        g.epidata.pop(old, None)
                else:
                    g.triples.append(t)
        except GraphError:
            res = 'GraphError'
        except Hang:
            res = 'Hang'
        except Exception as e:  # noqa
            res = 'EXC:' + excname(e)
        finally:
            signal.setitimer(signal.ITIMER_VIRTUAL, 0)
        ok, st = guarded(lambda: [_gstate(g) for g in pool])
        steps.append({'res': res if ok else 'EXC-in-query:' + excname(st), 'pool': st if ok else []})
    return {'kind': 'ghist', 'acts': acts, 'steps': steps}


# ======================================================= transformations (C11, C12)
def _g3(g):
    j = ab.graph_to_json(g)
    return {'top': j['top'], 'xtop': j['xtop'], 'tr': j['tr'], 'epi': j['epi']}


def _enc(g, m):
    out = {'ok': False, 'exc': '', 'tree': {'top': ab.NULL, 'br': [], 'meta': []}, 're': {'ok': False, 'exc': 'not run'},
           'g2': {'top': ab.NULL, 'tr': []}}
    ok, tree = guarded(layout.configure, g, model=m)
    if not ok:
        out['exc'] = 'Hang' if isinstance(tree, Hang) else excname(tree)
        return out
    out['ok'] = True
    out['tree'] = ab.tree_to_json(tree)
    ok, text = guarded(penman.format, tree, indent=None)
    if ok:
        ok, re_ = guarded(penman.parse, text)
        if ok:
            out['re'] = {'ok': True, 'exc': '', 'tree': ab.tree_to_json(re_)}
            ok, g2 = guarded(layout.interpret, re_, m)
            if ok:
                out['g2'] = {'top': ab.atom(g2.top), 'tr': [ab.triple(x) for x in g2.triples]}
        else:
            out['re'] = _decode_err(re_, {'ok': False, 'exc': ''})
    return out


def _start_graph(node, m, start):
    g = layout.interpret(Tree(to_node(node)), m)
    start = start or {}
    if start.get('append'):
        g.triples.append(tuple(start['append']))
    if start.get('strip'):
        g = Graph(list(g.triples), top=g.top)
    if start.get('implicit'):
        # a graph built from triples alone: no top is given (it is the source of the first triple) and the first triple need not
        # be an instance triple - an edge of the top comes first where there is one
        tr = list(g.triples)
        k = next((i for i, x in enumerate(tr) if x[0] == g.top and x[1] != ':instance'), None)
        if k is not None:
            tr.insert(0, tr.pop(k))
        g = Graph(tr)
    if start.get('top'):
        g.top = start['top']
    if start.get('copied') == 'deepcopy':
        g = copy.deepcopy(g)
    elif start.get('copied') == 'pickle':
        g = pickle.loads(pickle.dumps(g))
    elif start.get('copied') == 'minus-nothing':
        g = g - Graph([('no', ':such', 'triple')])
    if start.get('subclass'):
        # a user's subclass of Graph whose constructor takes something else first: still a Graph, and a transformation of it
        # is the transformation of its triples
        h = SentenceGraph('the sentence', g.triples, top=g._top, epidata=g.epidata, metadata=g.metadata)
        g = h
    return g


class SentenceGraph(Graph):
    """A Graph subclass as a user might write it (its constructor does not have Graph's signature)."""

    def __init__(self, sentence, triples=None, top=None, epidata=None, metadata=None):
        super().__init__(triples, top=top, epidata=epidata, metadata=metadata)
        self.sentence = sentence


_OPS = {'reify_edges': lambda g, m: transform.reify_edges(g, m), 'dereify_edges': lambda g, m: transform.dereify_edges(g, m),
        'reify_attributes': lambda g, m: transform.reify_attributes(g), 'indicate_branches': lambda g, m: transform.indicate_branches(g, m)}


def tr_program(node, ops, model='default', mdl=None, start=None, between=None):
    """between: what happens to every intermediate graph before the next transformation sees it - nothing, a deep copy, or a
    pickle round trip (a graph that was stored, sent to a worker, or combined with | and - is an equal graph)."""
    m = get_model(model, mdl)
    warm_model(m, _node_roles(node), 'tr_program')
    g = _start_graph(node, m, start)
    t = _mfields({'kind': 'program', 'g0': _g3(g), 'ops': list(ops), 'steps': []}, model, mdl)
    for op in ops:
        before = ab.graph_to_json(g)
        ok, h = guarded(_OPS[op], g, m)
        st = {'op': op, 'ok': bool(ok), 'exc': '' if ok else ('Hang' if isinstance(h, Hang) else excname(h)),
              'unchanged': ab.graph_to_json(g) == before}
        if not ok:
            st['g'] = _g3(g)
            st['enc'] = {'ok': False, 'exc': 'not run', 'tree': {'top': ab.NULL, 'br': [], 'meta': []}, 're': {'ok': False, 'exc': ''}, 'g2': {'top': ab.NULL, 'tr': []}}
            t['steps'].append(st)
            break
        if between == 'deepcopy':
            h = copy.deepcopy(h)
        elif between == 'pickle':
            h = pickle.loads(pickle.dumps(h))
        st['g'] = _g3(h)
        st['enc'] = _enc(h, m)
        t['steps'].append(st)
        g = h
    return t


def tr_inverse(node, model='amr', mdl=None, start=None):
    m = get_model(model, mdl)
    warm_model(m, _node_roles(node), 'tr_inverse')
    g = _start_graph(node, m, start)
    t = _mfields({'kind': 'inverse', 'g': _g3(g), 'g1': _g3(g), 'g2': _g3(g), 'text0': '', 'text2': '', 'exc': ''}, model, mdl)

    def run():
        codec = penman.PENMANCodec(model=m)
        t['text0'] = codec.encode(g)
        g1 = transform.reify_edges(g, m)
        t['g1'] = _g3(g1)
        g2 = transform.dereify_edges(g1, m)
        t['g2'] = _g3(g2)
        t['text2'] = codec.encode(g2)
    ok, r = guarded(run)
    if not ok:
        t['exc'] = 'Hang' if isinstance(r, Hang) else excname(r)
    return t


def tr_dereify(node, model='amr', mdl=None, start=None):
    m = get_model(model, mdl)
    warm_model(m, _node_roles(node), 'tr_dereify')
    g = _start_graph(node, m, start)
    t = _mfields({'kind': 'dereify', 'g': _g3(g), 'out': _g3(g), 'exc': ''}, model, mdl)
    ok, r = guarded(transform.dereify_edges, g, m)
    if ok:
        t['out'] = _g3(r)
    else:
        t['exc'] = 'Hang' if isinstance(r, Hang) else excname(r)
    return t


# ============================================================ command line (C16, C20)
import contextlib  # noqa: E402
import subprocess  # noqa: E402
import tempfile  # noqa: E402

_WORK = os.path.join(os.path.dirname(os.path.dirname(os.path.abspath(__file__))), 'work')


def _clidir():
    # one scratch directory per check run (removed by the framework when the check ends), one sub-directory per driver process
    d = os.path.join(_WORK, 'scratch.' + os.environ.get('VERIF_RUN_ID', str(os.getppid())), str(os.getpid()))
    os.makedirs(d, exist_ok=True)
    return d


def _model_file():
    p = os.path.join(_clidir(), 'model.json')
    if not os.path.exists(p):
        raw = RAW_MODELS['miniamr']
        roles = {lit: {} for lit in raw['lits']}
        for prefix, mult in raw['pats']:
            roles[prefix + ('[0-9]+' if mult == 'many' else '[0-9]')] = {}
        with open(p, 'w') as f:
            _json.dump({'roles': roles, 'normalizations': dict(raw['norm']), 'reifications': raw['reifs']}, f)
    return p


def run_tool(args, inputs, stdin=False, subproc=False):
    """Run the penman command on *inputs* (list of texts; one text via stdin if *stdin*). Returns dict(out, exit, exc)."""
    from penman import __main__ as pm
    d = _clidir()
    args = [(_model_file() if a == '@MODELFILE@' else a) for a in args]
    files = []
    if not stdin:
        for i, text in enumerate(inputs):
            p = os.path.join(d, f'in{i}.txt')
            with open(p, 'w', encoding='utf-8', newline='') as f:
                f.write(text)
            files.append(p)
    if subproc:
        env = dict(os.environ, PYTHONPATH=os.environ.get('PENMAN_SRC', '/repo'), PYTHONIOENCODING='utf-8')
        p = subprocess.run([sys.executable, '-m', 'penman'] + args + files, input=inputs[0] if stdin else None,
                           capture_output=True, text=True, encoding='utf-8', env=env, timeout=60, cwd=d)
        exc = ''
        if p.returncode not in (0, 1) or 'Traceback' in p.stderr:
            last = [l for l in p.stderr.strip().splitlines() if l.strip()]
            exc = last[-1].split(':')[0].split('.')[-1] if last else 'exit%d' % p.returncode
        return {'out': p.stdout, 'exit': p.returncode, 'exc': exc}
    old = sys.argv, sys.stdin, sys.stdout, sys.stderr
    out, err = io.StringIO(), io.StringIO()
    res = {'out': '', 'exit': 0, 'exc': ''}
    try:
        sys.argv = ['penman'] + args + files
        sys.stdin = io.StringIO(inputs[0]) if stdin else io.StringIO('')
        sys.stdout, sys.stderr = out, err
        signal.setitimer(signal.ITIMER_VIRTUAL, 20)
        try:
            pm.main()
        except SystemExit as e:
            res['exit'] = e.code if isinstance(e.code, int) else (0 if e.code is None else 1)
        except Hang:
            res['exc'] = 'Hang'
        except Exception as e:  # noqa
            res['exc'] = excname(e)
    finally:
        signal.setitimer(signal.ITIMER_VIRTUAL, 0)
        sys.argv, sys.stdin, sys.stdout, sys.stderr = old
    try:
        res['out'] = out.getvalue()
    except ValueError:
        # the command closed the stream it was given for standard output (what --quiet does): nothing can have been written
        res['out'] = ''
        res['exc'] = res['exc'] or 'StdoutClosed'
    return res


def _cli_model(name):
    return get_model('miniamr' if name == 'file' else name)


def _run_stages(plan, t):
    """The stage list the specification exported, applied to one parsed tree: (text, 1 if --check found errors else 0)."""
    g = None
    s = None
    bad = 0
    for st in plan['stages']:
        m = _cli_model(st['model'])
        fn = st['fn']
        if fn == 'canonicalize_roles':
            t = transform.canonicalize_roles(t, m)
        elif fn == 'interpret':
            g = layout.interpret(t, m)
        elif fn == 'reify_edges':
            g = transform.reify_edges(g, m)
        elif fn == 'dereify_edges':
            g = transform.dereify_edges(g, m)
        elif fn == 'reify_attributes':
            g = transform.reify_attributes(g)
        elif fn == 'indicate_branches':
            g = transform.indicate_branches(g, m)
        elif fn == 'check':
            errs = m.errors(g)
            if errs:
                bad = 1
                # every offending context is recorded as error-N metadata (one entry per context)
                for n, (ctx, msgs) in enumerate(errs.items(), 1):
                    prefix = '({}) '.format(' '.join(map(str, ctx))) if ctx else ''
                    g.metadata[f'error-{n}'] = prefix + msgs[-1]
        elif fn in ('configure', 'reconfigure'):
            if fn == 'configure':
                t = layout.configure(g, model=m)
            else:
                fns = [getattr(m, k) for k in st['keys']]
                t = layout.reconfigure(g, model=m, key=lambda role, fns=fns: [f(role) for f in fns])
        elif fn == 'rearrange':
            fns = [getattr(m, k) for k in st['keys']]
            layout.rearrange(t, key=lambda role, fns=fns: [f(role) for f in fns], attributes_first=st['af'])
        elif fn == 'reset_variables':
            t.reset_variables(st['arg'])
        elif fn == 'format':
            ind = None if st['arg'] == 'none' else int(st['arg'])
            s = penman.format(t, indent=ind, compact=st['flag'])
        elif fn == 'format_triples':
            s = penman.format_triples(g.triples, indent=st['flag'])
    return s, bad


def run_pipeline(plan, inputs, isolated=False):
    """The documented library pipeline, executed from the stage list the specification exported.  With *isolated* every
    graph is processed by an interpreter of its own (harness.iso_worker), so that the reference for a graph cannot depend
    on the graphs processed before it."""
    out = []
    exitcode = 0
    res = {'out': '', 'exit': 0, 'exc': ''}
    try:
        signal.setitimer(signal.ITIMER_VIRTUAL, 20)
        for i, text in enumerate(inputs):
            first = True
            for k, t in enumerate(penman.iterparse(io.StringIO(text))):
                if not first and plan['blank_between_graphs']:
                    out.append('\n')
                first = False
                if isolated:
                    signal.setitimer(signal.ITIMER_VIRTUAL, 0)
                    p = subprocess.run([sys.executable, '-B', '-m', 'harness.iso_worker'], input=_json.dumps({'plan': plan, 'text': text, 'k': k}),
                                       capture_output=True, text=True, encoding='utf-8', timeout=120,
                                       cwd=os.path.dirname(_SPEC), env=dict(os.environ, PYTHONIOENCODING='utf-8'))
                    r = _json.loads(p.stdout.strip().splitlines()[-1])
                    if r['exc']:
                        res['exc'] = r['exc']
                        break
                    s, bad = r['s'], r['bad']
                else:
                    s, bad = _run_stages(plan, t)
                exitcode |= bad
                out.append(s + '\n')
            if res['exc']:
                break
    except Hang:
        res['exc'] = 'Hang'
    except Exception as e:  # noqa
        res['exc'] = excname(e)
    finally:
        signal.setitimer(signal.ITIMER_VIRTUAL, 0)
    res['out'] = ''.join(out)
    res['exit'] = exitcode
    return res


def _graphs_of(text, m):
    ok, gs = guarded(lambda: [{'top': ab.atom(g.top), 'tr': [ab.triple(x) for x in g.triples]}
                              for g in penman.PENMANCodec(model=m).iterdecode(text)])
    return gs if ok else [{'top': 'EXC:' + excname(gs), 'tr': []}]


_FMT_ARGS = ('--compact',)


def _strip_format(args):
    return [a for a in args if a not in _FMT_ARGS and not a.startswith('--indent')]


def _split_errors(out):
    import re as _re
    keep, blocks, cur = [], [], set()
    for line in out.split('\n'):
        mm = _re.match(r'# ::error-\d+ (.*)$', line)
        if mm:
            v = mm.group(1)
            k = v.rfind(') ')
            cur.add(v[:k + 1] if v.startswith('(') and k >= 0 else '')
            continue
        keep.append(line)
        if line == '' and cur:
            blocks.append(sorted(cur))
            cur = set()
    if cur:
        blocks.append(sorted(cur))
    return '\n'.join(keep), blocks


def tr_cli(plan, inputs, model, stdin=False, subproc=False, wellformed=True, isolated=False):
    m = _cli_model(model)
    t = {'kind': 'cli', 'plan': plan, 'model': model, 'stdin': bool(stdin), 'subproc': bool(subproc), 'input_wellformed': bool(wellformed),
         'ninputs': len(inputs), 'max_errors': 0}
    if plan['random']:
        _random.seed(12345)
    t['tool'] = run_tool(plan['args'], inputs, stdin, subproc)
    if plan['random']:
        _random.seed(12345)
    t['lib'] = run_pipeline(plan, inputs, isolated and not plan['random'])
    t['in_graphs'] = [g for text in inputs for g in _graphs_of(text, m)]
    if plan['triples'] or t['tool']['exc']:
        t['out_graphs'] = t['base_graphs'] = []
        if plan['triples'] and not t['tool']['exc']:
            t['out_graphs'] = [{'top': ab.NULL, 'tr': []} for _ in t['tool']['out'].split('\n\n')] if t['tool']['out'].strip() else []
    else:
        t['out_graphs'] = _graphs_of(t['tool']['out'], m)
        base = run_tool(_strip_format(plan['args']), inputs, stdin, False)
        t['base_graphs'] = _graphs_of(base['out'], m)
    import re as _re
    # projections for option sets with --check: the text without the error-N metadata lines, and per output block the set of
    # offending contexts "(s r t)" those lines name (how the entries are numbered and worded is not the pipeline's business)
    for side in ('tool', 'lib'):
        t[side]['noerr'], t[side]['errctx'] = _split_errors(t[side]['out'])
    nums = [int(x) for x in _re.findall(r'(?m)^# ::error-(\d+) ', t['tool']['out'])]
    t['max_errors'] = max(nums) if nums else 0
    if plan['idempotent'] and not plan['triples'] and not t['tool']['exc']:
        t['tool2'] = run_tool(plan['args'], [t['tool']['out']], True, False)
    else:
        t['tool2'] = {'out': t['tool']['out'], 'exit': 0, 'exc': ''}
    return t


def tr_clicheck(inputs, model='amr', stdin=False, subproc=False, quiet=False, extra=()):
    """inputs: list of texts.  --check over all of them; what is wrong with each graph comes from Model.errors.
    quiet: with --quiet nothing is written, the exit status is all there is (a real subprocess: the option closes stdout)."""
    m = _cli_model(model)
    args = {'default': [], 'amr': ['--amr'], 'noop': ['--noop'], 'file': ['--model', '@MODELFILE@']}[model] + ['--check', '--indent=no']
    # layout and formatting options that come after the check in the pipeline: the offending triples stay the same
    args = args + list(extra)
    if quiet:
        args, subproc = args + ['--quiet'], True
    t = {'kind': 'check', 'model': model, 'args': args, 'inputs': [], 'outs': [], 'quiet': bool(quiet)}
    for text in inputs:
        per = []
        for g in penman.PENMANCodec(model=m).iterdecode(text):
            errs = m.errors(g)
            ctxs = [[('({}) '.format(' '.join(map(str, k))) if k else '') + msg for msg in v] for k, v in errs.items()]
            per.append({'bad': bool(errs), 'contexts': ctxs})
        t['inputs'].append(per)
    t['tool'] = run_tool(args, inputs, stdin, subproc)
    # split the tool's output back into per-input, per-graph error metadata
    outs = []
    if not t['tool']['exc']:
        ok, gs = guarded(lambda: list(penman.PENMANCodec(model=m).iterdecode(t['tool']['out'])))
        gs = gs if ok else []
        k = 0
        for per in t['inputs']:
            cur = []
            for _ in per:
                if k < len(gs):
                    cur.append([v for kk, v in gs[k].metadata.items() if kk.startswith('error-')])
                k += 1
            outs.append(cur)
        if k != len(gs):
            outs.append([['surplus output graphs']])
    t['outs'] = outs
    return t


# ================================================================ streams (C09)
import re as _re2  # noqa: E402


def split_lines(s, keep):
    """Split at LF / CRLF / CR only (what a text file iterator yields, before newline translation)."""
    parts = _re2.split(r'(\r\n|\r|\n)', s)
    lines = []
    for i in range(0, len(parts), 2):
        body = parts[i]
        term = parts[i + 1] if i + 1 < len(parts) else ''
        if body == '' and term == '' and i > 0:
            break
        lines.append(body + (term if keep else ''))
    return lines


def _lgraph(g):
    j = ab.graph_to_json(g)
    return {'top': j['top'], 'tr': j['tr'], 'epi': j['epi'], 'meta': j['meta']}


def _outcome(c, f):
    graphs = []
    out = {'c': c, 'ok': True, 'exc': '', 'graphs': graphs}

    def run():
        for g in f():
            graphs.append(_lgraph(g))
    ok, r = guarded(run)
    if not ok:
        out['ok'] = False
        out['exc'] = 'Hang' if isinstance(r, Hang) else excname(r)
    return out


def tr_stream(text, model='default'):
    m = get_model(model)
    codec = penman.PENMANCodec(model=m)
    d = _clidir()
    path = os.path.join(d, 'stream.txt')
    with open(path, 'w', encoding='utf-8', newline='') as f:
        f.write(text)
    outs = [
        _outcome('loads(str)', lambda: penman.loads(text, model=m)),
        _outcome('iterdecode(str)', lambda: codec.iterdecode(text)),
        _outcome('penman.iterdecode(str)', lambda: penman.iterdecode(text, model=m)),
        _outcome('iterdecode(lines)', lambda: codec.iterdecode(split_lines(text, False))),
        _outcome('iterdecode(lines with terminators)', lambda: codec.iterdecode(split_lines(text, True))),
        _outcome('load(StringIO)', lambda: penman.load(io.StringIO(text, newline=None), model=m)),
        _outcome('load(file)', lambda: penman.load(path, model=m, encoding='utf-8')),
        _outcome('iterparse+interpret', lambda: (layout.interpret(t, m) for t in penman.iterparse(text))),
    ]
    return {'kind': 'stream', 'text': text, 'model': model, 'outs': outs}


def tr_bigstream(texts, sep, tail='', model='default'):
    """A long stream given as its per-graph texts (each short: comment lines and one graph) joined by *sep*: long enough to
    cross the block boundaries of buffered file reading.  The first container is logged in full (TLC compares it with the
    reference reading, composed text by text); of every container the sequence of per-graph digests of the same projection
    is logged, which TLC compares across containers."""
    import hashlib
    m = get_model(model)
    codec = penman.PENMANCodec(model=m)
    text = sep.join(texts) + tail
    d = _clidir()
    path = os.path.join(d, 'bigstream.txt')
    with open(path, 'w', encoding='utf-8', newline='') as f:
        f.write(text)

    def viafh():
        with open(path, encoding='utf-8') as fh:
            return penman.load(fh, model=m)
    conts = [
        ('loads(str)', lambda: penman.loads(text, model=m)),
        ('iterdecode(lines with terminators)', lambda: codec.iterdecode(split_lines(text, True))),
        ('load(StringIO)', lambda: penman.load(io.StringIO(text, newline=None), model=m)),
        ('load(path)', lambda: penman.load(path, model=m, encoding='utf-8')),
        ('load(open file)', viafh),
        ('penman.iterdecode(str)', lambda: penman.iterdecode(text, model=m)),
    ]
    t = {'kind': 'bigstream', 'texts': list(texts), 'sep': sep, 'model': model, 'nchars': len(text), 'outs': []}
    for name, f in conts:
        o = _outcome(name, f)
        if not t['outs']:
            t['first'] = {'ok': o['ok'], 'exc': o['exc'], 'graphs': o['graphs']}
        t['outs'].append({'c': name, 'ok': o['ok'], 'exc': o['exc'],
                          'digests': [hashlib.sha1(_json.dumps(g, sort_keys=True).encode()).hexdigest()[:12] for g in o['graphs']]})
    return t


def tr_filehist(hist, model='default', how='path'):
    """A history of dumps and loads on two paths, generated by MC_File, replayed on real files (how: the path as str, as
    pathlib.Path, or an open file object).  Every load is logged; a dump that raises is logged too."""
    import pathlib
    m = get_model(model)
    codec = penman.PENMANCodec(model=m)
    d = _clidir()
    paths = {1: os.path.join(d, 'hist-1.txt'), 2: os.path.join(d, 'hist-2.txt')}
    for pth in paths.values():
        if os.path.exists(pth):
            os.remove(pth)
    t = {'kind': 'filehist', 'model': model, 'how': how, 'hist': hist, 'steps': []}
    for ev in hist:
        pth = paths[ev['path']]
        if ev['op'] == 'dump':
            gs = [codec.decode(x) for x in ev['texts']]
            if how == 'fileobj':
                def run():
                    with open(pth, 'w', encoding='utf-8') as fh:
                        penman.dump(gs, fh, model=m)
            else:
                def run():
                    penman.dump(gs, pathlib.Path(pth) if how == 'Path' else pth, model=m, encoding='utf-8')
            ok, r = guarded(run)
            t['steps'].append({'ok': bool(ok), 'exc': '' if ok else excname(r), 'graphs': []})
        else:
            if how == 'fileobj':
                def ld():
                    with open(pth, encoding='utf-8') as fh:
                        return penman.load(fh, model=m)
            else:
                def ld():
                    return penman.load(pathlib.Path(pth) if how == 'Path' else pth, model=m, encoding='utf-8')
            o = _outcome('load', ld)
            t['steps'].append({'ok': o['ok'], 'exc': o['exc'], 'graphs': o['graphs']})
    return t


def tr_dumps(texts, model='default', indent=-1, compact=False):
    """texts: one text per graph; they are decoded, then dumped in several ways and loaded back."""
    m = get_model(model)
    codec = penman.PENMANCodec(model=m)
    gs = [codec.decode(s) for s in texts]
    t = {'kind': 'dumps', 'model': model, 'texts': list(texts), 'graphs': [_lgraph(g) for g in gs], 'variants': []}

    def back(how, text, loader):
        o = _outcome(how, loader)
        t['variants'].append({'how': how, 'text': text, 'back': {'ok': o['ok'], 'exc': o['exc'], 'graphs': o['graphs']}})
    ok, s = guarded(penman.dumps, gs, model=m, indent=indent, compact=compact)
    if ok:
        back('dumps', s, lambda: penman.loads(s, model=m))
    else:
        t['variants'].append({'how': 'dumps', 'text': '', 'back': {'ok': False, 'exc': excname(s), 'graphs': []}})
    encs = [codec.encode(g, indent=indent, compact=compact) for g in gs]
    anymeta = any(g.metadata for g in gs[1:])
    for name, sep in (('join:newline', '\n'), ('join:crlf', '\r\n\r\n'), ('join:blank+spaces', '\n  \n')) + (() if anymeta else (('join:space', ' '), ('join:none', ''))):
        s2 = sep.join(encs)
        back(name, s2, lambda s2=s2: penman.loads(s2, model=m))
    d = _clidir()
    path = os.path.join(d, 'dump.txt')
    with open(path, 'w', encoding='utf-8') as f:      # the file exists and holds something else: dump replaces its content
        f.write('# ::id stale\n(stale / content-of-an-earlier-dump)\n')
    ok, r = guarded(penman.dump, gs, path, model=m, indent=indent, compact=compact, encoding='utf-8')
    if ok:
        with open(path, encoding='utf-8', newline='') as f:
            s3 = f.read()
        back('dump(file)+load(file)', s3, lambda: penman.load(path, model=m, encoding='utf-8'))
        fresh = os.path.join(d, 'dump-fresh.txt')      # and a path that does not exist yet is created
        if os.path.exists(fresh):
            os.remove(fresh)
        ok, r = guarded(penman.dump, gs, fresh, model=m, indent=indent, compact=compact, encoding='utf-8')
        if ok and os.path.exists(fresh):
            with open(fresh, encoding='utf-8', newline='') as f:
                s5 = f.read()
            back('dump(new file)+load(file)', s5, lambda: penman.load(fresh, model=m, encoding='utf-8'))
        else:
            t['variants'].append({'how': 'dump(new file)', 'text': '', 'back': {'ok': False, 'exc': excname(r) if not ok else 'file-not-created', 'graphs': []}})
    else:
        t['variants'].append({'how': 'dump(file)', 'text': '', 'back': {'ok': False, 'exc': excname(r), 'graphs': []}})
    sio = io.StringIO()
    ok, r = guarded(penman.dump, gs, sio, model=m, indent=indent, compact=compact)
    if ok:
        s4 = sio.getvalue()
        back('dump(StringIO)+load(StringIO)', s4, lambda: penman.load(io.StringIO(s4), model=m))
    return t


# ============================================================ API surface (spec growth, non-gating)
def tr_api_tree(node, meta=None):
    node = to_node(node)
    t = Tree(node, metadata=dict(meta or {'k': 'v'}))
    ft = ab.check_tree_roundtrip(node, meta)
    return {'kind': 'api-tree', 'tree': ft, 'nodes': [ab.atom(n[0]) for n in t.nodes()], 'walk': [list(p) for p, _ in t.walk()],
            'str': str(t), 'repr': repr(t),
            'eq_without_meta': bool(t == Tree(node, metadata={'other': 'x'})), 'eq_self': bool(t == node)}


def tr_api_grapheq(tr1, top1, tr2, top2):
    a, b = build_graph(tr1, None, top1), build_graph(tr2, None, top2)
    j = lambda g: {'top': ab.atom(g.top), 'tr': [ab.triple(x) for x in g.triples]}   # noqa: E731
    return {'kind': 'api-graph-eq', 'a': j(a), 'b': j(b), 'eq': bool(a == b)}


def tr_api_aln(text):
    m = surface.Alignment.from_string('~' + text)
    return {'kind': 'api-aln', 'text': text, 'str': str(m), 'prefix': m.prefix or '', 'indices': list(m.indices)}


def tr_api_errstr(message=None, filename=None, lineno=None, offset=None, text=None, raised_from=None):
    """The text of a DecodeError: built from its documented fields, or (raised_from) raised by the parser on an ill-formed text."""
    if raised_from is not None:
        try:
            penman.parse(raised_from)
            e = DecodeError('not raised')
        except DecodeError as exc:
            e = exc
    else:
        e = DecodeError(message, filename=filename, lineno=lineno, offset=offset, text=text)
    w = lambda x: ab.NULL if x is None else str(x)   # noqa: E731
    return {'kind': 'api-errstr', 'raised': raised_from is not None, 'input': raised_from or '', 'off': e.offset if isinstance(e.offset, int) and e.offset >= 0 else 0,
            'e': {'message': w(e.message), 'filename': w(e.filename), 'lineno': w(e.lineno), 'offset': w(e.offset), 'text': w(e.text)},
            'str': str(e)}


def tr_api_modeleq(d1, d2):
    """d: keyword description of a model (roles, normalizations, reifications, top_variable, top_role, concept_role)."""
    def mk(d):
        kw = dict(d)
        if 'reifications' in kw:
            kw['reifications'] = [tuple(x) for x in kw['reifications']]
        return kw
    a, b = Model(**mk(d1)), Model(**mk(d2))
    norm = lambda d: _json.dumps({k: (sorted(map(list, v)) if k == 'reifications' else v) for k, v in mk(d).items()   # noqa: E731
                                  if v not in ({}, [], None)}, sort_keys=True, default=list)
    defaults = {'top_variable': 'top', 'top_role': ':TOP', 'concept_role': ':instance'}
    full = lambda d: norm({**defaults, **d})   # noqa: E731
    return {'kind': 'api-model-eq', 'same': full(d1) == full(d2), 'eq': bool(a == b), 'eq_from_dict': bool(Model.from_dict(mk(d1)) == a),
            'neq_other': bool(a != 'a model') and bool(a != None) and (a.__eq__(3) is NotImplemented)}   # noqa: E711


def tr_api_args(args, usage_error):
    """The command's answer to its arguments alone (empty input on stdin): a real subprocess, so that argparse's own exit is seen."""
    d = _clidir()
    env = dict(os.environ, PYTHONPATH=os.environ.get('PENMAN_SRC', '/repo'), PYTHONIOENCODING='utf-8')
    p = subprocess.run([sys.executable, '-m', 'penman'] + list(args), input='', capture_output=True, text=True, encoding='utf-8',
                       env=env, timeout=60, cwd=d)
    return {'kind': 'api-args', 'args': list(args), 'usage_error': bool(usage_error), 'exit': p.returncode, 'out': p.stdout,
            'err_nonempty': bool(p.stderr.strip())}


def tr_plaincall(call, model='amr', seed=0):
    """A documented call that takes a mutable plain argument (a set, a list, a dict): the argument before and after, the
    result, and the result of the same call repeated with an equal argument.  (C17: arguments are left unchanged; the result
    depends on the arguments only.)"""
    import random as _r
    rng = _r.Random('plaincall:%s:%d' % (call, seed))
    m = get_model(model)
    def norm(o):
        if isinstance(o, dict):
            return sorted(([str(k), norm(v)] for k, v in o.items()), key=str)
        if isinstance(o, (set, frozenset)):
            return sorted((norm(x) for x in o), key=str)
        if isinstance(o, (list, tuple)):
            return [norm(x) for x in o]
        if isinstance(o, Model):
            # a model as an argument: its tables and what it answers about a fixed list of roles and concepts
            probe_r = [':mod', ':poss', ':ARG0', ':foo', ':location', ':quant', ':domain', ':mod-of', ':foo-of', ':polarity', '']
            probe_c = ['have-mod-91', 'own-01', 'be-located-at-91', 'foo', 'have-quant-91', None]
            return {'reifs': sorted(map(str, o.reifications)), 'dereifs': sorted(map(str, o.dereifications)),
                    'norm': norm(dict(o.normalizations)), 'roles': sorted(map(str, o.roles)),
                    'reifiable': [bool(o.is_role_reifiable(r)) for r in probe_r], 'has': [bool(o.has_role(r)) for r in probe_r],
                    'dereifiable': [bool(o.is_concept_dereifiable(x)) for x in probe_c]}
        return o if isinstance(o, (str, int, float, bool)) or o is None else str(o)
    J = lambda x: _json.dumps(norm(x))   # noqa: E731
    roles = [':mod', ':poss', ':ARG0', ':location', ':polarity', ':quant', ':beneficiary', ':time']
    triple = (rng.choice(['a', 'b', '_']), rng.choice(roles), rng.choice(['c', 'd', '-', '7', '_2']))
    names = set(rng.sample(['a', 'b', 'c', 'd', '_', '_2', '_3', 'x'], rng.randint(0, 6)))
    tlist = [tuple(x) for x in [['a', ':instance', 'alpha'], ['a', ':ARG0', 'b'], ['b', ':instance', 'beta'], ['b', ':mod', '"s t"']][:rng.randint(1, 4)]]
    if call == 'Model.reify':
        mk = lambda: (triple, set(names))              # noqa: E731
        fn = lambda a: m.reify(a[0], a[1])              # noqa: E731
    elif call == 'Model.reify(no variables)':
        mk = lambda: (triple,)                          # noqa: E731
        fn = lambda a: m.reify(a[0])                    # noqa: E731
    elif call == 'format_triples':
        mk = lambda: (list(tlist),)                     # noqa: E731
        fn = lambda a: penman.format_triples(a[0])      # noqa: E731
    elif call == 'Graph':
        mk = lambda: (list(tlist), {tlist[0]: [layout.POP]}, {'id': '1'})     # noqa: E731
        fn = lambda a: ab.graph_to_json(Graph(a[0], epidata=a[1], metadata=a[2]))   # noqa: E731
    elif call == 'dumps':
        gs = [penman.decode('(a / alpha :ARG0 (b / beta))'), penman.decode('# ::id 2\n(c / gamma)')]
        mk = lambda: (list(gs),)                        # noqa: E731
        fn = lambda a: penman.dumps(a[0], model=m)      # noqa: E731
    elif call == 'Model':
        mk = lambda: ({':ARG0': {}, ':mod': {'type': 'general'}}, {':mod-of': ':domain'}, [(':mod', 'have-mod-91', ':ARG1', ':ARG2')])   # noqa: E731
        fn = lambda a: sorted(Model(roles=a[0], normalizations=a[1], reifications=a[2]).reifications)   # noqa: E731
    elif call.startswith('model:'):
        # the model itself is an argument of its methods: a query - also one that ends in the documented error - leaves it as it was
        fresh = lambda: copy.deepcopy(m)                # noqa: E731
        odd = (rng.choice(['a', 'b']), rng.choice([':foo', ':ARG0', ':polarity', ':instance', ':mod-of-of', '', ':quant-of']), rng.choice(['c', '-', '7']))
        inst = (rng.choice(['a', '_']), ':instance', rng.choice(['foo', 'have-mod-91', 'own-01', None]))
        what = call[6:]
        mk = lambda: (fresh(),)                         # noqa: E731
        fn = {'reify(no reification)': lambda a: a[0].reify(odd, set(names)),
              'reify': lambda a: a[0].reify(triple, set(names)),
              'dereify(not dereifiable)': lambda a: a[0].dereify(inst, (inst[0], ':ARG1', 'x'), (inst[0], ':ARG7', 'y')),
              'is_role_reifiable': lambda a: a[0].is_role_reifiable(odd[1]),
              'is_concept_dereifiable': lambda a: a[0].is_concept_dereifiable(inst[2]),
              'canonicalize_role': lambda a: a[0].canonicalize_role(odd[1]),
              'invert_role': lambda a: a[0].invert_role(odd[1]),
              'has_role': lambda a: a[0].has_role(odd[1]),
              'errors': lambda a: a[0].errors(Graph([odd, inst]))}[what]
    else:
        raise ValueError(call)
    t = {'kind': 'plaincall', 'call': call, 'model': model}
    a1 = mk()
    t['arg_before'] = J(a1)
    ok, r1 = guarded(fn, a1)
    t['arg_after'] = J(a1)
    t['result'] = J(r1) if ok else 'EXC:' + excname(r1)
    a2 = mk()
    ok, r2 = guarded(fn, a2)
    t['again'] = J(r2) if ok else 'EXC:' + excname(r2)
    return t
