"""
Drivers: run the real penman (imported from /repo's working tree) on one case
and record every observable as a JSON-able trace for the TLA+ judges.
"""
import io
import os
import signal
import sys

sys.path.insert(0, os.environ.get('PENMAN_SRC', '/repo'))
sys.dont_write_bytecode = True
import penman  # noqa: E402
from penman import _lexer, layout, transform, surface, constant  # noqa: E402
from penman.graph import Graph  # noqa: E402
from penman.tree import Tree  # noqa: E402
from penman.exceptions import DecodeError  # noqa: E402

from . import abstraction as ab  # noqa: E402

assert os.path.realpath(penman.__file__).startswith(os.path.realpath(os.environ.get('PENMAN_SRC', '/repo'))), penman.__file__

CALL_TIMEOUT = 5.0


class Hang(Exception):
    pass


def _alarm(signum, frame):
    raise Hang()


signal.signal(signal.SIGALRM, _alarm)


def guarded(f, *a, **k):
    """Call f; returns (ok, value-or-exception)."""
    signal.setitimer(signal.ITIMER_REAL, CALL_TIMEOUT)
    try:
        return True, f(*a, **k)
    except Hang:
        return False, Hang('no return within %.0fs' % CALL_TIMEOUT)
    except RecursionError as e:
        return False, e
    except Exception as e:  # noqa
        return False, e
    finally:
        signal.setitimer(signal.ITIMER_REAL, 0)


def excname(e):
    return type(e).__name__


def _decode_err(e, out):
    out['ok'] = False
    out['exc'] = excname(e)
    if isinstance(e, DecodeError):
        out['line'] = e.lineno if e.lineno is not None else -1
        out['col'] = e.offset if e.offset is not None else -1
    return out


def to_node(j):
    """JSON form [var, [[role, target], ...]] (or a tuple already) -> tree node tuple."""
    if isinstance(j, tuple):
        return j
    var, branches = j
    return (var, [(r, to_node(t) if isinstance(t, (list, tuple)) else t) for r, t in branches])


# ---------------------------------------------------------------- lexer (C08)
def tr_lex(text=None, triple=False, lines=None):
    pat = _lexer.TRIPLE_RE if triple else _lexer.PENMAN_RE
    src = text if lines is None else lines
    ok, r = guarded(lambda: [ab.token(t) for t in _lexer.lex(src, pattern=pat)])
    t = {'kind': 'lex', 'triple': triple, 'container': 'str' if lines is None else 'seq'}
    if lines is None:
        t['text'] = text
    else:
        t['lines'] = list(lines)
    t['toks'] = r if ok else [{'type': 'EXC:' + excname(r), 'text': '', 'line': 0, 'col': 0}]
    return t


# --------------------------------------------------------------- parser (C07)
def parse_out(text):
    ok, r = guarded(penman.parse, text)
    out = {'ok': True, 'exc': ''}
    if ok:
        out['tree'] = ab.tree_to_json(r)
        return out
    return _decode_err(r, out)


def tr_parse(text=None, fn='parse', lines=None):
    t = {'kind': 'parse', 'fn': fn, 'container': 'str' if lines is None else 'seq'}
    src = text if lines is None else lines
    if lines is None:
        t['text'] = text
    else:
        t['lines'] = list(lines)
    if fn == 'parse':
        t['out'] = parse_out(text)
    else:
        trees = []
        out = {'ok': True, 'exc': '', 'trees': trees}

        def run():
            for tr in penman.iterparse(src):
                trees.append(ab.tree_to_json(tr))
        ok, r = guarded(run)
        if not ok:
            _decode_err(r, out)
        t['out'] = out
    return t


def tr_ptriples(text):
    ok, r = guarded(penman.parse_triples, text)
    out = {'ok': True, 'exc': ''}
    if ok:
        out['ts'] = [ab.triple(x) for x in r]
    else:
        _decode_err(r, out)
    return {'kind': 'ptriples', 'text': text, 'out': out}


# ------------------------------------------------------------ formatter (C01)
def tr_format(node, meta, indent, compact, via_codec=False):
    """indent: int or None (-2 in the trace)."""
    node = to_node(node)
    ft = ab.check_tree_roundtrip(node, meta)
    t = {'kind': 'format', 'tree': ft, 'indent': -2 if indent is None else indent,
         'compact': compact, 'exc': '', 'text': '', 're': {'ok': False, 'exc': 'not run'}, 'text2': ''}
    tree = Tree(node, metadata=dict(meta or {}))
    if via_codec:
        codec = penman.PENMANCodec()
        fmt, prs = codec.format, codec.parse
    else:
        fmt, prs = penman.format, penman.parse
    ok, r = guarded(fmt, tree, indent=indent, compact=compact)
    if not ok:
        t['exc'] = excname(r)
        return t
    t['text'] = r
    ok, r2 = guarded(prs, r)
    if ok:
        t['re'] = {'ok': True, 'exc': '', 'tree': ab.tree_to_json(r2)}
        ok3, r3 = guarded(fmt, r2, indent=indent, compact=compact)
        t['text2'] = r3 if ok3 else 'EXC:' + excname(r3)
    else:
        t['re'] = _decode_err(r2, {'ok': False, 'exc': ''})
    return t


def tr_fixpoint(text, indent=-1, compact=False):
    t = {'kind': 'fixpoint', 'text': text, 'out': parse_out(text), 'f1': '', 're1': {'ok': False, 'exc': 'not run'}, 'f2': ''}
    if t['out']['ok']:
        tree = penman.parse(text)
        ok, f1 = guarded(penman.format, tree, indent=indent, compact=compact)
        if ok:
            t['f1'] = f1
            ok, re1 = guarded(penman.parse, f1)
            if ok:
                t['re1'] = {'ok': True, 'exc': '', 'tree': ab.tree_to_json(re1)}
                ok, f2 = guarded(penman.format, re1, indent=indent, compact=compact)
                t['f2'] = f2 if ok else 'EXC:' + excname(f2)
            else:
                t['re1'] = _decode_err(re1, {'ok': False, 'exc': ''})
        else:
            t['f1'] = 'EXC:' + excname(f1)
    return t


# ------------------------------------------------------------- triples (C19)
def _ptri(text):
    ok, r = guarded(penman.parse_triples, text)
    if ok:
        return {'ok': True, 'exc': '', 'ts': [ab.triple(x) for x in r]}
    return _decode_err(r, {'ok': False, 'exc': '', 'ts': []})


def tr_triples(ts, indent, variants=()):
    """ts: list of (src, role, tgt) with str fields; variants: alternative spellings of the same list."""
    t = {'kind': 'triples', 'ts': [ab.triple(x) for x in ts], 'indent': bool(indent)}
    ok, r = guarded(penman.format_triples, ts, indent=indent)
    t['text'] = r if ok else 'EXC:' + excname(r)
    t['back'] = _ptri(t['text'])
    t['variants'] = [_ptri(v) for v in variants]
    t['variant_texts'] = list(variants)
    return t


# ----------------------------------------------------------- constants (C18)
def _evalkind(x):
    ok, r = guarded(constant.evaluate, x)
    if not ok:
        return ('error' if excname(r) == 'ConstantError' else 'other:' + excname(r)), ''
    if r is None:
        return 'none', ''
    if isinstance(r, bool):
        return 'other:bool', ''
    if isinstance(r, int):
        return 'int', ''
    if isinstance(r, float):
        return ('other:nan' if r != r else 'float'), ''
    if isinstance(r, str):
        return 'str', r
    return 'other:' + type(r).__name__, ''


def _typename(x):
    ok, r = guarded(constant.type, x)
    if not ok:
        return 'error' if excname(r) == 'ConstantError' else 'other:' + excname(r)
    return r.value


def tr_quote(s):
    """s: a str, or a number / None (then the original for comparison is its str form / '')."""
    ok, q = guarded(constant.quote, s)
    orig = '' if s is None else str(s)
    t = {'kind': 'quote', 's': orig, 'q': q if ok else 'EXC:' + excname(q)}
    if not isinstance(s, str):
        okq, q2 = guarded(constant.quote, orig)
        t['same_as_str_form'] = bool(ok and okq and q == q2)
    else:
        t['same_as_str_form'] = True
    t['toks'] = tr_lex(t['q'])['toks']
    k, txt = _evalkind(t['q'])
    t['back'] = {'kind': k, 'text': txt}
    t['type'] = _typename(t['q'])
    return t


def tr_eval(s):
    k, txt = _evalkind(s)
    return {'kind': 'eval', 's': s, 'ekind': k, 'type': _typename(s), 'same': (k != 'str') or txt == s or s.startswith('"')}
