"""One graph of one input text through the documented library pipeline, in an interpreter of its own:
   python -m harness.iso_worker   < {"plan":..., "text":..., "k": index of the graph in the text}   > {"s", "bad", "exc"}"""
import io
import json
import sys

from . import drive as dr


def main():
    job = json.load(sys.stdin)
    out = {'s': '', 'bad': 0, 'exc': ''}
    try:
        for k, t in enumerate(dr.penman.iterparse(io.StringIO(job['text']))):
            if k == job['k']:
                out['s'], out['bad'] = dr._run_stages(job['plan'], t)
                break
        else:
            out['exc'] = 'NoSuchGraph'
    except Exception as e:  # noqa
        out['exc'] = dr.excname(e)
    print(json.dumps(out))


main()
