"""
Record executions of layout.configure() step by step through the verification hook (environment variable PENMAN_VERIF,
which must be set before penman is imported, hence a separate interpreter):
    PENMAN_VERIF=1 python -m harness.configure_worker < jobs.ndjson > traces.ndjson
job: {"tr": [[s, r, t]...], "epi": [[marker...]...], "top": var}
"""
import json
import os
import sys

assert os.environ.get('PENMAN_VERIF'), 'the hook is off'
from . import drive as dr  # noqa: E402
from .abstraction import NULL, atom, graph_to_json, tree_to_json, triple  # noqa: E402

layout = dr.layout


def norm(ev):
    kind = ev[0]
    if kind == 'enter':
        return {'ev': 'enter', 'var': atom(ev[1]), 'n': ev[2], 'n2': 0, 's': False}
    if kind == 'leave':
        return {'ev': 'leave', 'var': atom(ev[1]), 'n': ev[3], 'n2': 0, 's': bool(ev[2])}
    if kind == 'find':
        return {'ev': 'find', 'var': atom(ev[1]), 'n': 0 if ev[1] is None else ev[2], 'n2': 0, 's': False}
    if kind == 'round':
        return {'ev': 'round', 'var': '', 'n': ev[1], 'n2': ev[2], 's': bool(ev[3])}
    if kind == 'end':
        return {'ev': 'end', 'var': '', 'n': ev[1], 'n2': 0, 's': False}
    return {'ev': 'unknown:' + str(kind), 'var': '', 'n': 0, 'n2': 0, 's': False}


def main():
    if getattr(layout, '_verif_events', None) is None:
        # this copy of penman has no hook (e.g. an older scratch copy): nothing to record
        sys.stdout.write(json.dumps({'nohook': True}) + '\n')
        return
    for line in sys.stdin:
        if not line.strip():
            continue
        job = json.loads(line)
        g = dr.build_graph(job['tr'], job.get('epi'), job.get('top'))
        view = None
        layout._verif_events.clear()
        ok, t = dr.guarded(layout.configure, g, top=job.get('top'))
        view = graph_to_json(g)['epi']          # the value-keyed marker map as configure() sees it (duplicates share one list)
        rec = {'tr': [triple(x) for x in g.triples], 'epi': [[m for m in e if m['m'] in ('push', 'pop')] for e in view],
               'top': atom(job.get('top')), 'events': [norm(e) for e in layout._verif_events],
               'outcome': 'ok' if ok else ('Hang' if isinstance(t, dr.Hang) else type(t).__name__),
               'tree': tree_to_json(t) if ok else {'top': NULL, 'br': [], 'meta': []}}
        sys.stdout.write(json.dumps(rec, ensure_ascii=True) + '\n')


if __name__ == '__main__':
    main()
