"""C13: role inversion and canonicalisation algebra; canonicalize_roles on trees."""
from . import gen, tlc
from .checks_layout import CUSTOM, _corpus_trees, _random_trees, _q
from .framework import pmake

# a defined role followed by three more characters is not "the role or a single inversion of it"
JUNK = ['abc', '-fo', 'xof', '-on', '123', '_of']
BASES = {
    'default': [':ARG0', ':mod', ':foo', ':x-y', 'ARG1', '', ':', ':op1', ':consist-of', ':TOP', ':instance', 'instance'],
    'noop': [':ARG0', ':foo', 'r', '', ':op1'],
    'amr': [':ARG0', ':ARG9', ':ARG10', ':op1', ':op12', ':snt3', ':mod', ':domain', ':consist-of', ':prep-on-behalf-of', ':prep-out-of',
            ':polarity', ':foo', ':wiki', 'mod', 'domain', 'ARG1', '', ':', ':employed-by', ':conj-as-if', ':TOP', ':instance', ':quant'],
    'miniamr': [':ARG0', ':ARG1', ':ARG2', ':mod', ':domain', ':consist-of', ':op1', ':op23', ':accompanier', ':foo', 'mod', ''],
}
# random tables with normalisation chains (closed and not closed) and roles ending in -of by definition
CHAINS = [
    {'lits': [':a', ':b', ':c-of'], 'pats': [[':n', 'many']], 'noop': False, 'norm': [[':a-of', ':b'], [':b-of', ':a']], 'reifs': []},
    {'lits': [':a', ':b'], 'pats': [], 'noop': False, 'norm': [[':a', ':b'], [':b', ':c']], 'reifs': []},
    {'lits': [':c-of'], 'pats': [], 'noop': False, 'norm': [[':x', ':y-of-of']], 'reifs': []},
    {'lits': [':a'], 'pats': [[':k', 'one']], 'noop': True, 'norm': [[':a-of', ':z']], 'reifs': []},
]


# ends of the triples the triple laws are asked about: the laws are about the role, whatever the ends are
ENDS = [('s', 't'), ('a', 5), ('a', 0), ('b', -1.5), ('a', None), ('a', '"a string"'), ('x', 'x'), ('a', 0.0), ('n1', '-'), (7, 'a')]


def _ends(c, kw):
    """Half of the role traces keep the plain ends, the others draw them from ENDS (numbers, None, strings, a self-loop)."""
    if c.rng.random() < 0.5:
        kw['src'], kw['tgt'] = c.rng.choice(ENDS[1:])
    return kw


def check_C13(c):
    c.mc('MC_Model', _q(c, 'MC_Model_q.cfg', 'MC_Model_t.cfg'), workers=16, heap='8g')
    jobs = []
    cases, res = tlc.export_cases('MC_Model', cfg='MC_ModelX.cfg', workers=4, heap='4g')
    c.states += res['distinct']
    c.transitions += res['states']
    c.mc_runs.append(dict(module='MC_Model (export run)', cfg='MC_ModelX.cfg', distinct_states=res['distinct'],
                          states_generated=res['states'], wall_s=round(res['wall'], 1), exported=len(cases)))
    if c.tier == 'quick':
        cases = c.rng.sample(cases, min(len(cases), 6000))
    for case in cases:
        for k in (0, 2):
            jobs.append(('tr_roles', _ends(c, dict(role=case['role'] + '-of' * k, model='custom', mdl=case['mdl']))))
    n_exp = len(jobs)
    for model, bases in BASES.items():
        for b in bases:
            for k in range(5):
                jobs.append(('tr_roles', dict(role=b + '-of' * k, model=model)))
                jobs.append(('tr_roles', _ends(c, dict(role=b + '-of' * k, model=model))))
    for model, roles in (('amr', [':ARG0', ':mod', ':op1', ':consist-of', ':polarity']), ('miniamr', [':ARG1', ':mod', ':op2']), ('default', [':TOP', ':instance'])):
        for r in roles:
            for j in JUNK:
                for k in (0, 1):
                    jobs.append(('tr_roles', dict(role=r + j + '-of' * k, model=model)))
    for mdl in CUSTOM + CHAINS:
        bases = set(mdl['lits']) | {p[0] + '1' for p in mdl['pats']} | {p[0] + '12' for p in mdl['pats']} | {k_ for k_, _ in mdl['norm']} \
            | {v for _, v in mdl['norm']} | {':free', 'a', ''}
        for b in sorted(bases):
            for k in range(5):
                jobs.append(('tr_roles', _ends(c, dict(role=b + '-of' * k, model='custom', mdl=mdl))))
    # trees
    trees = _corpus_trees() + list(_random_trees(c, _q(c, 800, 20000)))
    for jn, meta in trees:
        r = c.rng.random()
        if r < 0.25:
            mk = dict(model='custom', mdl=c.rng.choice(CUSTOM + CHAINS))
        else:
            mk = dict(model=c.rng.choice(['default', 'amr', 'noop', 'miniamr']))
        jobs.append(('tr_canontree', dict(node=jn, meta=meta, shape='list' if len(jobs) % 13 == 5 else None, **mk)))
    traces = pmake(jobs, optimized_share=0.02)
    c.judge('J_Model', traces, 'roles', nontrivial=lambda t: t['kind'] == 'canontree' or len(t['role']) > 1)
    c.rule = ('role = base + k x "-of", k in 0..4, bases from model-defined roles (literal and pattern), roles ending in -of by '
              'definition, the empty role, roles without colon, free names x models {default, AMR, no-op, MiniAMR, custom tables with '
              'normalisation chains}; plus every (table, role) pair exported by TLC from MC_Model (all tables over a 3-role universe '
              'with up to two normalisation entries; sampled in the quick tier); canonicalize_roles on corpus and random trees; '
              'distinct by (model, role) / (model, tree)')
    c.bounds = {'exported_cases': n_exp}
    c.assumptions += ['an undefined role whose single inversion the model defines (e.g. :consist under AMR) is outside the algebra (O1)',
                      'F16 (canonicalisation not idempotent when the normalisation table is not closed) is an open known finding']


REGISTRY = {'C13': check_C13}
