"""C11 (reify / dereify inverse) and C12 (programs of transformations)."""
import itertools

from . import gen, tlc
from .checks_layout import CUSTOM, _q
from .framework import pmake

OPS = ['reify_edges', 'dereify_edges', 'reify_attributes', 'indicate_branches']
AMR_ROLES = [':ARG0', ':ARG1', ':ARG2', ':mod', ':domain', ':polarity', ':quant', ':time', ':location', ':name', ':op1', ':op2',
             ':accompanier', ':poss', ':beneficiary', ':cause', ':age', ':topic', ':subset', ':superset', ':consist-of', ':wiki', ':li']
AMR_CONCEPTS = ['dog', 'bark-01', 'have-mod-91', 'accompany-01', 'have-quant-91', 'include-91', 'own-01', 'be-located-at-91', 'x', '_',
                'age-01', 'cause-01', 'benefit-01', 'receive-01', 'and', 'name']
MINI_ROLES = [':ARG0', ':ARG1', ':ARG2', ':mod', ':domain', ':accompanier', ':op1', ':op2', ':consist-of']
MINI_CONCEPTS = ['dog', 'have-mod-91', 'accompany-01', 'alpha', 'x', '_']


def _trees(c, n, model):
    roles, concepts = (AMR_ROLES, AMR_CONCEPTS) if model == 'amr' else (MINI_ROLES, MINI_CONCEPTS)
    for i in range(n):
        cfg = gen.TreeCfg(wellformed=True, roles=roles, concepts=concepts, max_nodes=7 if i % 9 else 16, max_depth=4 if i % 9 else 8,
                          vars=['a', 'b', 'c', 'd', 'e', '_', '_2', '_3', 'x', 'y', 'z', 'n1', 'v1'], p_meta=0.0, p_invert=0.3,
                          p_noconcept=0.08, p_missing_concept=0.02, p_missing_target=0.03, exotic_symbols=0.0, p_concept_is_var=0.03)
        node, meta = gen.random_tree(c.rng, cfg)
        yield gen.node_to_json(node)


def _reified_shape_trees(c, n, model):
    """
    Trees containing nodes that look like reifications (a dereifiable concept with its two argument roles, sometimes a third
    relation or only one), attached in every way: referenced by an ordinary edge (nested as an argument), by an inverted
    edge, re-entrant, or as the top.
    """
    from .drive import RAW_MODELS
    table = RAW_MODELS['amr' if model == 'amr' else 'miniamr']['reifs']
    fillers = ['b', 'c', 'd']
    for i in range(n):
        role, concept, srole, trole = c.rng.choice(table)
        rv = c.rng.choice(['r', '_', 'h', 'x2'])
        args = [(srole, c.rng.choice([('b', [('/', 'beta')]), 'a', '7', '"s"', ('b', [])])),
                (trole, c.rng.choice([('c', [('/', 'gamma')]), '7', 'a', '-', ('c', [('/', 'x'), (':polarity', '-')])]))]
        if c.rng.random() < 0.3:
            args.reverse()
        if c.rng.random() < 0.1:
            # looks like a reification but is none: one argument hangs on a role the table does not pair with this concept
            k = c.rng.randrange(len(args))
            args[k] = (c.rng.choice([':ARG0', ':ARG3', ':op1', ':mod', ':ARG1-of']), args[k][1])
        extra = c.rng.random()
        if extra < 0.15:
            args.append((':mod', 'z'))            # another relation: must not be collapsed
        elif extra < 0.25:
            args.pop()                             # only one relation
        if c.rng.random() < 0.3:
            args = [(r + maybe, t) for (r, t), maybe in zip(args, ['~e.1', '', ''])]
        rnode = (rv, [('/', concept + c.rng.choice(['', '~e.4']))] + args)
        shape = c.rng.random()
        if c.rng.random() < 0.12:
            # a collapsible node directly under the top, followed by a nested node and a re-entrancy under a reifiable role
            rr = c.rng.choice([r for r, _, _, _ in table])
            # (the way reify_edges writes it: one argument role is the inverted edge from the parent, the other is inside)
            inner, outer = (trole, srole) if c.rng.random() < 0.7 else (srole, trole)
            if c.rng.random() < 0.2:
                # ... but one of the two is a role the table does not pair with this concept: not a reification, must stay
                if c.rng.random() < 0.5:
                    inner = c.rng.choice([':ARG0', ':ARG3', ':op1', ':mod'])
                else:
                    outer = c.rng.choice([':ARG0', ':ARG3', ':op1', ':mod'])
            rnode2 = (rv, [('/', concept), (inner, c.rng.choice(['7', '-', '"s"', ('c', [('/', 'gamma')])]))])
            yield gen.node_to_json(('a', [('/', 'alpha'), (outer + '-of', rnode2),
                                          (':ARG0', ('b', [('/', 'beta')])), (rr + c.rng.choice(['', '-of']), 'b')]))
            continue
        if shape < 0.15:
            node = rnode                                                   # the reified node is the top
        elif shape < 0.45:
            node = ('a', [('/', 'alpha'), (c.rng.choice([':ARG0', ':ARG1', ':op1']), rnode)])      # referenced: nested as an argument
        elif shape < 0.75:
            node = ('a', [('/', 'alpha'), (c.rng.choice([':ARG0-of', ':ARG1-of']), rnode)])        # attached by an inverted edge
        elif shape < 0.9:
            node = ('a', [('/', 'alpha'), (':ARG0', rnode), (':ARG1', rv)])                         # referenced twice
        else:
            node = ('a', [('/', 'alpha'), (':ARG2', ('e', [('/', 'eps'), (':ARG0', rnode)])), (':ARG1-of', ('f', [('/', 'phi')]))])
        # more branches after the reified node: a nested node and a re-entrancy to it under a reifiable role (no Push marker,
        # so appears_inverted has to replay the node contexts past whatever POPs a dereification left behind)
        if node is not rnode and c.rng.random() < 0.6:
            rrole = c.rng.choice([r for r, _, _, _ in table])
            node[1].append((c.rng.choice([':ARG2', ':op2']), ('k', [('/', 'kappa')])))
            node[1].append((rrole + c.rng.choice(['', '-of']), c.rng.choice(['k', 'a', '7'])))
        # variables must be unique: drop the tree if a filler collides
        vs = _vars_of(gen.node_to_json(node))
        if len(vs) != len(set(vs)):
            continue
        yield gen.node_to_json(node)


def _start(c, jn):
    r = c.rng.random()
    if r < 0.03:
        return {'implicit': True}     # built from triples alone, no top given, an edge of the top first
    if r < 0.35:
        return None
    if r < 0.38:
        return {'subclass': True, 'strip': c.rng.random() < 0.3}
    if r < 0.45:
        # an edited or transported graph: its markers are equal to, not identical with, the module's (deepcopy: what |, - and
        # reconfigure do to their operands; pickle: a graph that crossed a process boundary)
        return {'copied': c.rng.choice(['deepcopy', 'pickle', 'minus-nothing'])}
    if r < 0.75:
        return {'strip': True}
    if r < 0.9:
        return {'append': [jn[0], ':polarity', '-']}
    return {'strip': c.rng.random() < 0.5, 'top_choice': True}


def _vars_of(jn, acc=None):
    acc = [] if acc is None else acc
    acc.append(jn[0])
    for _, t in jn[1]:
        if isinstance(t, list):
            _vars_of(t, acc)
    return acc


def check_C12(c):
    c.mc('MC_Transform', _q(c, 'MC_Transform_q.cfg', 'MC_Transform_t.cfg'), workers=8, heap='8g')
    jobs = []
    progs = [list(p) for n in (1, 2, 3) for p in itertools.permutations(OPS, n)]
    cli_order = [[o for o in OPS if o in sel] for sel in ([OPS[0], OPS[1]], OPS, [OPS[0], OPS[2]], [OPS[1], OPS[2], OPS[3]], [OPS[0], OPS[3]])]
    for model in ('amr', 'miniamr', 'default'):
        for jn in _trees(c, _q(c, 500, 12000), model):
            st = _start(c, jn)
            if st and st.pop('top_choice', None):
                vs = [v for v in _vars_of(jn) if v]
                st['top'] = c.rng.choice(vs)
            ops = c.rng.choice(cli_order) if c.rng.random() < 0.3 else c.rng.choice(progs)
            if _q(c, False, True) and c.rng.random() < 0.2:
                ops = c.rng.sample(OPS, 4)
            jobs.append(('tr_program', dict(node=jn, ops=ops, model=model, start=st,
                                            between=c.rng.choice([None, None, None, 'deepcopy', 'pickle']))))
    for model in ('amr', 'miniamr'):
        for jn in _reified_shape_trees(c, _q(c, 250, 6000), model):
            ops = c.rng.choice([['dereify_edges'], ['dereify_edges', 'reify_edges'], ['dereify_edges', 'reify_edges'], ['dereify_edges', 'reify_attributes'],
                                ['indicate_branches', 'dereify_edges'], ['reify_attributes', 'dereify_edges']])
            jobs.append(('tr_program', dict(node=jn, ops=ops, model=model, start=None if c.rng.random() < 0.7 else {'strip': True})))
            if ops != ['dereify_edges', 'reify_edges']:
                # collapse, then reify again: the markers a dereification leaves behind must not confuse the layout diagnostics
                jobs.append(('tr_program', dict(node=jn, ops=['dereify_edges', 'reify_edges'], model=model)))
    traces = pmake(jobs, optimized_share=0.02)
    c.judge('J_Transform', traces, 'programs', nontrivial=lambda t: any(s['ok'] and s['g']['tr'] != t['g0']['tr'] for s in t['steps']))
    c.rule = ('random well-formed trees over the AMR / MiniAMR role and concept inventories (reifiable roles on edges, attributes, '
              'inverted edges, re-entrancies, aligned roles and targets, pre-existing variables _ and _2) decoded into start graphs '
              'in four states (decoded; hand-built = markers stripped; edited = a triple appended; another variable chosen as explicit '
              'top) x programs of 1-3 (thorough: up to 4) distinct transformations in the tool order and in every other order x models '
              '{AMR, MiniAMR, default}; every step is judged; non-trivial = some step changes the graph')
    c.assumptions += ['exact agreement with the specification transformation (marker placement, triple order) is drift, the stated clauses gate',
                      'programs indicate branches at most once (as the property states)']


def check_C11(c):
    c.mc('MC_Transform', _q(c, 'MC_Transform_q.cfg', 'MC_Transform_t.cfg'), workers=8, heap='8g')
    jobs = []
    for model in ('amr', 'miniamr', 'default'):
        for jn in _trees(c, _q(c, 900, 20000), model):
            st = None if c.rng.random() < 0.7 else {'strip': True}
            if len(jobs) % 14 == 6:
                st = {'implicit': True}      # built from triples alone, no top given, an edge of the top first
            jobs.append(('tr_inverse', dict(node=jn, model=model, start=st)))
            jobs.append(('tr_dereify', dict(node=jn, model=model, start=st)))
    for mdl in CUSTOM:
        for jn in _trees(c, _q(c, 200, 4000), 'miniamr'):
            jobs.append(('tr_inverse', dict(node=jn, model='custom', mdl=mdl)))
    # nodes that look like reifications, attached in every way (referenced, inverted, re-entrant, top)
    for model in ('amr', 'miniamr'):
        for jn in _reified_shape_trees(c, _q(c, 700, 15000), model):
            st = None if c.rng.random() < 0.7 else {'strip': True}
            jobs.append(('tr_dereify', dict(node=jn, model=model, start=st)))
            jobs.append(('tr_inverse', dict(node=jn, model=model, start=st)))     # (judged where nothing in it is collapsible)
    traces = pmake(jobs, optimized_share=0.02)
    c.judge('J_Transform', traces, 'inverse', nontrivial=lambda t: t['kind'] == 'inverse' and t['g1']['tr'] != t['g']['tr'] or
            t['kind'] == 'dereify' and t['out']['tr'] != t['g']['tr'])
    c.rule = ('random well-formed trees over the AMR / MiniAMR inventories (reifiable roles on edges, attributes, inverted edges, '
              're-entrancies, aligned roles/targets, concepts that are dereifiable, pre-existing _ / _2) x {decoded, hand-built} x models '
              '{AMR, MiniAMR, default (no-op case), custom tables}: reify then dereify, and dereify alone; preconditions (no collapsible '
              'node initially, unambiguous table) decided by the specification; non-trivial = the transformation changes the graph')
    c.assumptions += ['ambiguous reification tables (AMR include-91 for :subset and :superset) are outside the precondition']


REGISTRY = {'C11': check_C11, 'C12': check_C12}
