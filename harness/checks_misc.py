"""C09 (containers and stream framing) and C17 (purity and determinism)."""
from . import corpus, gen, tlc
from .checks_layout import _q
from .framework import pmake


def _graph_texts(c, n):
    import penman
    out = []
    for i in range(n):
        cfg = gen.TreeCfg(wellformed=True, max_nodes=6, max_depth=4, p_meta=0.6, exotic_symbols=0.05)
        node, meta = gen.random_tree(c.rng, cfg)
        try:
            # the metadata lines are written here, one "# ::key value" line per entry as the documentation shows them, not by the
            # formatter under test: what the pool texts say must not depend on it
            s = ''.join('# ::%s%s\n' % (k, ' ' + v if v else '') for k, v in (meta or {}).items() if k)
            s += penman.format(penman.Tree(node), indent=c.rng.choice([None, -1, 0, 3]), compact=c.rng.random() < 0.3)
            penman.decode(s)
        except Exception:
            continue
        if c.rng.random() < 0.25:
            # several keys on one comment line, blanks before the next "::", a comment without metadata
            s = c.rng.choice(['# ::id 7  ::snt foo bar   ::k\n', '# ::a 1 ::b  two  words \t ::c\n# plain comment\n', '#::x y::z  w \n']) + s
        out.append(s)
    return out


def _bigstreams(c):
    """Long streams whose interesting places - the end of a metadata line, a CRLF pair, the end of a graph - fall on, just before
    and just after the block sizes of buffered file reading (4096, 8192, 16384 characters; more in the thorough tier)."""
    filler = '(f / filler :op1 "%s")' % ('x' * 150)
    jobs = []
    for B in _q(c, [4096, 8192, 16384], [4096, 8192, 16384, 32768, 65536, 131072]):
        for kind in ('lf-after-metadata', 'crlf-straddles', 'end-of-graph'):
            for delta in (-1, 0, 1):
                nl = '\r\n' if kind == 'crlf-straddles' else '\n'
                sep = nl + nl
                texts, n = [], 0
                while n + len(filler) + len(sep) < B - 400:
                    texts.append(filler)
                    n += len(filler) + len(sep)
                # the adjustable text: its first line is padded so that the interesting character lands on index B - 1 + delta
                if kind == 'end-of-graph':
                    head = '(p / pad :op1 "'
                    pad = (B - 1 + delta) - n - len(head) - len('")') + 1
                    target = head + 'p' * max(pad - 1, 1) + '")'
                else:
                    head = '# ::pad '
                    # index of the terminator's first character = n + len(head) + pad
                    pad = (B - 1 + delta) - n - len(head) - (1 if kind == 'crlf-straddles' else 0)
                    target = head + 'p' * max(pad, 1) + nl + '# ::id t' + nl + '(t / target :ARG0 (u / under))'
                texts.append(target)
                texts += ['# ::id after ::snt the next one' + nl + '(a / after' + nl + '   :ARG1 (b / boundary))', filler, '(l / last)']
                jobs.append(('tr_bigstream', dict(texts=texts, sep=sep, tail=c.rng.choice(['', nl]), model='default')))
    return jobs


def check_C09(c):
    c.mc('MC_Stream', _q(c, 'MC_Stream_4.cfg', 'MC_Stream_5.cfg'), workers=8, heap='6g')
    jobs = []
    alpha = ['(', ')', 'a', '/', '#', ':', ' ', '\n', '\r', gen.SC['vt'], gen.SC['nel'], gen.SC['ls']]
    for s in gen.all_strings(alpha, _q(c, 3, 4)):
        jobs.append(('tr_stream', dict(text=s)))
    for ln, cnt in _q(c, [(4, 1500), (6, 1500)], [(5, 12000), (7, 8000)]):
        for s in gen.sample_strings(c.rng, alpha, ln, cnt):
            jobs.append(('tr_stream', dict(text=s)))
    pool = _graph_texts(c, _q(c, 150, 2000))
    seps = ['\n\n', '\n', '\r\n\r\n', '\r', '\n\n\n', ' ', '', '\n# a comment without metadata\n', '\r\n']
    for _ in range(_q(c, 1200, 10000)):
        k = c.rng.choice([0, 1, 1, 2, 2, 3])
        ts = c.rng.sample(pool, k)
        sep = c.rng.choice(seps)
        s = sep.join(ts) + c.rng.choice(['', '\n', '\r\n', '\n\n'])
        if c.rng.random() < 0.2:
            s = s.replace('\n', c.rng.choice(['\r\n', '\r']))
        if c.rng.random() < 0.15:
            s = gen.mutate_text(c.rng, s)
        jobs.append(('tr_stream', dict(text=s, model=c.rng.choice(['default', 'amr', 'noop']))))
    for s in corpus.graph_strings():
        jobs.append(('tr_stream', dict(text=s)))
    # a quoted string that is broken over two lines (a string does not continue on the next line: a decode error in every
    # container alike), after zero to two complete graphs
    for brk in ('\n', '\r\n', '\r'):
        for k in (0, 1, 2):
            for t in ('(a / alpha :value "first line%ssecond line")', '(a / alpha :name "x%s" :ARG0 (b / beta))', '# ::snt ok\n(a / "al%spha")'):
                s = '\n\n'.join(c.rng.sample(pool, k) + [t % brk]) + '\n'
                jobs.append(('tr_stream', dict(text=s, model='default')))
    for _ in range(_q(c, 700, 5000)):
        k = c.rng.choice([0, 1, 2, 3])
        jobs.append(('tr_dumps', dict(texts=c.rng.sample(pool, k), model=c.rng.choice(['default', 'amr']), indent=c.rng.choice([None, -1, 0, 2]),
                                      compact=c.rng.random() < 0.3)))
    jobs += _bigstreams(c)
    # the file machine (MC_File): read-your-last-write on two paths; its histories replayed on real files
    c.mc('MC_File', _q(c, 'MC_File_q.cfg', 'MC_File_t.cfg'), workers=8, heap='4g')
    hists, res = tlc.export_cases('MC_File', cfg='MC_FileX.cfg', workers=4, heap='4g')
    c.states += res['distinct']
    c.transitions += res['states']
    hists = [h for h in hists if any(e['op'] == 'load' for e in h['hist'])]
    c.mc_runs.append(dict(module='MC_File (export of dump/load histories)', cfg='MC_FileX.cfg', distinct_states=res['distinct'],
                          states_generated=res['states'], wall_s=round(res['wall'], 1), exported=len(hists)))
    if c.tier == 'quick':
        hists = c.rng.sample(hists, min(len(hists), 400))
    for h in hists:
        jobs.append(('tr_filehist', dict(hist=h['hist'], how=c.rng.choice(['path', 'path', 'Path', 'fileobj']))))
    traces = pmake(jobs, procs=12, optimized_share=0.02)
    c.judge('J_Stream', traces, 'stream', nontrivial=lambda t: (t['kind'] == 'stream' and len(t['outs'][0]['graphs']) >= 1) or
            (t['kind'] == 'dumps' and len(t['graphs']) >= 1))
    c.rule = ('every text up to length %d over ( ) a / # : space LF CR VT U+0085 U+2028 and samples of longer ones; streams of 0-3 random '
              'well-formed graphs with multi-key metadata (empty values, values with ; ( ) " # and non-ASCII separators) joined by blank '
              'line / newline / CRLF / CR / space / nothing / comment lines, with LF replaced by CRLF or CR in a fifth of them and token '
              'damage in some; each through loads(str), iterdecode(str), iterdecode(lines), iterdecode(lines with terminators), '
              'load(StringIO), load(real file), iterparse+interpret; dumps / joined encodings / dump to a file and to StringIO, loaded '
              'back; non-trivial = at least one graph' % _q(c, 3, 4))
    c.assumptions += ['the operating system is not modelled: a file is a text split at LF, CRLF, CR; real files under /verif/work are used',
                      'StringIO is opened with newline=None (universal newlines) to stand for a text-mode file',
                      'error positions are judged under C07; here acceptance and graph sequences gate']


REGISTRY = {'C09': check_C09}


# ------------------------------------------------------------------------ C17
def _worker(histories, hashseed, mp=False, flags=(), pyflags=()):
    """Replay *histories* in a fresh interpreter with the given PYTHONHASHSEED; returns one log per history."""
    import json
    import os
    import subprocess
    import sys
    env = dict(os.environ, PYTHONHASHSEED=str(hashseed), PYTHONPATH=os.environ.get('PENMAN_SRC', '/repo'), PYTHONDONTWRITEBYTECODE='1')
    data = ''.join(json.dumps(h) + '\n' for h in histories)
    p = subprocess.run([sys.executable, '-B'] + list(pyflags) + ['-m', 'harness.purity_worker'] + (['--mp'] if mp else []) + list(flags), input=data, capture_output=True,
                       text=True, env=env, cwd=tlc.VERIF, timeout=1800)
    if p.returncode != 0:
        raise tlc.MachineryError('purity worker failed: ' + p.stderr[-2000:])
    logs = [json.loads(l) for l in p.stdout.splitlines() if l.strip()]
    if len(logs) != len(histories):
        raise tlc.MachineryError('purity worker returned %d logs for %d histories' % (len(logs), len(histories)))
    return logs


def _cli_under_seed(args, text, hashseed):
    import os
    import subprocess
    import sys
    env = dict(os.environ, PYTHONHASHSEED=str(hashseed), PYTHONPATH=os.environ.get('PENMAN_SRC', '/repo'), PYTHONIOENCODING='utf-8',
               PYTHONDONTWRITEBYTECODE='1')
    p = subprocess.run([sys.executable, '-B', '-m', 'penman'] + args, input=text, capture_output=True, text=True, encoding='utf-8', env=env,
                       timeout=120, cwd=tlc.WORK)
    return 'exit=%d\n' % p.returncode + p.stdout


def check_C17(c):
    import json
    from concurrent.futures import ThreadPoolExecutor
    c.mc('Purity', _q(c, 'Purity_q.cfg', 'Purity_t.cfg'), workers=_q(c, 8, 16), heap=_q(c, '6g', '10g'), timeout=7200)
    # one worker: with a fixed seed the simulated behaviours are then the same on every run
    res = tlc.run_tlc('Purity', cfg='PurityX.cfg', workers=1, heap='4g', simulate='num=%d' % _q(c, 260, 6500),
                      extra=['-depth', '11', '-seed', str(c.seed + 3)], tag='Purity_sim')
    hs = {}
    for line in res['out'].split('\n'):
        m = tlc._EXPORT.match(line.strip())
        if m:
            h = json.loads(tlc._unquote(m.group(1)))
            hs[json.dumps(h, sort_keys=True)] = h
    hist = [hs[k] for k in sorted(hs)]
    if not hist:
        raise tlc.MachineryError('no call histories from the simulation:\n' + res['out'][-1500:])
    c.rng.shuffle(hist)
    hist = hist[:_q(c, 250, 6000)]
    # directed histories (Purity!DSpec, enumerated completely): a derived graph meets its source as the other operand
    dres = tlc.run_tlc('Purity', cfg='PurityD.cfg', workers=4, heap='4g', tag='Purity_directed')
    dh = {}
    for line in dres['out'].split('\n'):
        m = tlc._EXPORT.match(line.strip())
        if m:
            h = json.loads(tlc._unquote(m.group(1)))
            dh[json.dumps(h, sort_keys=True)] = h
    if tlc.tlc_failed(dres) or not dh:
        raise tlc.MachineryError('no directed histories from Purity!DSpec:\n' + dres['out'][-1500:])
    directed = [dh[k] for k in sorted(dh)]
    if c.tier == 'quick':
        directed = c.rng.sample(directed, min(len(directed), 400))
    c.states += dres['distinct']
    c.transitions += dres['states']
    c.mc_runs.append(dict(module='Purity (DSpec: directed histories, complete enumeration)', cfg='PurityD.cfg', distinct_states=dres['distinct'],
                          states_generated=dres['states'], behaviours=len(dh), replayed=len(directed), wall_s=round(dres['wall'], 1)))
    hist = hist + directed
    for i, h in enumerate(hist):
        h['pool_seed'] = c.seed * 1000 + i % 40
    c.transitions += res['states']
    c.mc_runs.append(dict(module='Purity (simulation, export of call histories)', cfg='PurityX.cfg', behaviours=len(hist), wall_s=round(res['wall'], 1)))
    envs = [('hashseed 0', 0, False), ('hashseed 1', 1, False), ('hashseed 2', 2, False), ('hashseed %d' % (1000 + c.seed), 1000 + c.seed, False),
            ('worker process, hashseed 7', 7, True),
            ('unrelated calls between the calls, hashseed 5', 5, False, ('--noise',), ()),
            ('interpreter run with -O, hashseed 3', 3, False, (), ('-O',))]
    with ThreadPoolExecutor(max_workers=7) as ex:
        logs = list(ex.map(lambda e: _worker(hist, e[1], e[2], *(e[3:] or ())), envs))
    traces = []
    for i, h in enumerate(hist):
        traces.append({'kind': 'purity', 'hist': h['hist'], 'pool_seed': h['pool_seed'],
                       'runs': [{'env': envs[r][0], 'exc': logs[r][i]['exc'], 'steps': []} if isinstance(logs[r][i], dict)
                                else {'env': envs[r][0], 'exc': '', 'steps': logs[r][i]} for r in range(len(envs))]})
    # the command under several hash seeds
    import penman
    texts = _graph_texts(c, 12) + ['(a / alpha :poss (b / beta) :beneficiary (c / gamma :poss a))',
                                   '(i / include-91 :ARG1 (x / x) :ARG2 (y / y))', '(d / dog :subset (e / e) :superset (f / f))']
    stream = '\n\n'.join(texts)
    optsets = [[], ['--amr', '--reify-edges', '--reify-attributes'], ['--amr', '--check', '--canonicalize-roles'], ['--triples'],
               ['--rearrange', 'canonical', '--make-variables', '{prefix}{j}'], ['--amr', '--reify-edges', '--dereify-edges', '--indicate-branches'],
               ['--reconfigure', 'canonical', '--compact'], ['--noop', '--reify-attributes', '--indent=no']]
    if c.tier == 'quick':
        optsets = c.rng.sample(optsets, 4)
    with ThreadPoolExecutor(max_workers=8) as ex:
        outs = list(ex.map(lambda a: [_cli_under_seed(a, stream, s) for s in (0, 1, 2, 12345)], optsets))
    for a, o in zip(optsets, outs):
        traces.append({'kind': 'cliseeds', 'args': a, 'outs': o})
    # documented calls that take a mutable plain argument
    plain = pmake([('tr_plaincall', dict(call=k, model=mdl, seed=c.seed * 100 + i))
                   for k in ('Model.reify', 'Model.reify(no variables)', 'format_triples', 'Graph', 'dumps', 'Model', 'model:reify(no reification)',
                             'model:reify', 'model:dereify(not dereifiable)', 'model:is_role_reifiable', 'model:is_concept_dereifiable',
                             'model:canonicalize_role', 'model:invert_role', 'model:has_role', 'model:errors')
                   for mdl in ('amr', 'miniamr') for i in range(_q(c, 12, 200))])
    traces += plain
    c.judge('J_Purity', traces, 'purity', nontrivial=lambda t: t['kind'] in ('cliseeds', 'plaincall') or len(t['hist']) >= 3)
    # API surface outside the listed properties (specification growth): reported as drift only
    jobs = []
    for i in range(_q(c, 300, 5000)):
        node, meta = gen.random_tree(c.rng, gen.TreeCfg(wellformed=False, max_nodes=7, p_empty_node=0.05))
        jobs.append(('tr_api_tree', dict(node=gen.node_to_json(node), meta=meta)))
    for i in range(_q(c, 300, 5000)):
        tr, vs = gen.arbitrary_triples(c.rng, 4)
        tr2 = list(tr)
        r = c.rng.random()
        if r < 0.3:
            c.rng.shuffle(tr2)
        elif r < 0.5 and tr2:
            tr2.append(list(tr2[0]))
        elif r < 0.7 and tr2:
            tr2[-1] = [tr2[-1][0], ':zz', tr2[-1][2]]
        jobs.append(('tr_api_grapheq', dict(tr1=tr, top1=c.rng.choice(vs + [None]), tr2=tr2, top2=c.rng.choice(vs + [None]))))
    for text in ['1', '01', 'e.1', 'e1', 'E.12,3', 'x.0,00,7', '10,2', 'Z9']:
        jobs.append(('tr_api_aln', dict(text=text)))
    for text in ['e12', 'x10,3', 'e.0', 'Q.5,6,7', '007']:
        jobs.append(('tr_api_aln', dict(text=text)))
    # the text of decode errors: every combination of present / absent fields, and errors the parser raises itself
    vals = dict(message=[None, 'Expected: ROLE', ''], filename=[None, 'f.txt'], lineno=[None, 1, 12], offset=[None, 0, 5], text=[None, '(a / b', ''])
    import itertools
    for combo in itertools.product(*vals.values()):
        jobs.append(('tr_api_errstr', dict(zip(vals.keys(), combo))))
    for bad in ['(a / b', '(a / b :c', ')', '(a b)', '(a / b))', 'a', '(a / "x', '# c\n(a :b (c / d) :e', '(a / b\n   :c (d /\n  e f))', '(a ~1)', '(', '']:
        jobs.append(('tr_api_errstr', dict(raised_from=bad)))
    # model equality and from_dict
    descs = [{}, {'roles': {':ARG0': {}}}, {'roles': {':ARG0': {}, ':mod': {}}}, {'roles': {':ARG0': {'type': 'x'}}}, {'normalizations': {':mod-of': ':domain'}},
             {'reifications': [[':mod', 'have-mod-91', ':ARG1', ':ARG2']]}, {'top_variable': 'root'}, {'top_role': ':ROOT'}, {'concept_role': ':isa'},
             {'roles': {':ARG0': {}}, 'normalizations': {':mod-of': ':domain'}}, {'top_variable': 'top', 'top_role': ':TOP'}]
    for d1 in descs:
        for d2 in descs:
            jobs.append(('tr_api_modeleq', dict(d1=d1, d2=d2)))
    # the command's answers to argument errors
    for args, usage in [(['--version'], False), (['-V'], False), (['--indent=x'], False), (['--indent=-2'], False), (['--indent=1.5'], False), (['--indent=no'], False),
                        (['--indent=3'], False), (['--amr', '--noop'], True), (['--amr', '--model', '/nonexistent/model.json'], True), (['--rearrange', 'sideways'], True),
                        (['--reconfigure', 'alphanumeric'], True), (['--rearrange', 'canonical,upside-down'], True), (['--no-such-option'], True),
                        (['--model', '/nonexistent/model.json'], True), (['--rearrange'], True), (['--check', '--quiet'], False), ([], False),
                        (['--reconfigure', 'original,random'], False), (['--rearrange', 'inverted-last,attributes-first'], False)]:
        jobs.append(('tr_api_args', dict(args=args, usage_error=usage)))
    api = pmake(jobs, optimized_share=0.02)
    c.judge('J_Api', api, 'api-surface', gating=False)
    c.rule = ('call histories of 10 calls generated by TLC in simulation mode from Purity.tla (29 operations: interpret, configure, '
              'reconfigure, format, encode, decode, a re-laid-out copy, canonicalize_roles, the four transformations, graph queries, errors, diagnostics, triple-conjunction round trip, '
              'alignments, tree nodes/walk, |, -, and the in-place |=, -=, top=, appending a marker, rearrange, reset_variables) on a shared pool of 2 trees '
              'and 2 graphs (40 different seeded pools), each replayed under PYTHONHASHSEED 0, 1, 2 and a seed-derived value, once '
              'inside a multiprocessing worker, once with unrelated calls (other texts, other models that compare equal to each other) between its calls and once under python -O; the command run as a real subprocess under 4 hash seeds on a stream of 12 graphs x option '
              'sets; distinct by history; non-trivial = three or more calls')
    c.assumptions += ['projection of an object = triple list in order, explicit top, marker map as key-sorted list with marker order kept, '
                      'metadata in order / nested tree with texts; the iteration order of the marker dictionary itself is not part of it',
                      'hash seeds and processes are not modelled: the same history is replayed and TLC compares the recorded runs']


REGISTRY['C17'] = check_C17
