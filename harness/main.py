import sys

from . import framework
from . import checks_syntax

REGISTRY = {}
REGISTRY.update(checks_syntax.REGISTRY)
for modname in ('checks_layout', 'checks_model', 'checks_graph', 'checks_transform', 'checks_cli', 'checks_misc'):
    try:
        mod = __import__('harness.' + modname, fromlist=['REGISTRY'])
        REGISTRY.update(mod.REGISTRY)
    except ModuleNotFoundError as e:
        if modname not in str(e):
            raise

if __name__ == '__main__':
    sys.exit(framework.main(REGISTRY))
