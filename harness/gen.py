"""
Seeded generators of inputs (strings, trees, graphs, models).  They only draw
from the spaces the properties quantify over; whether a generated case meets a
property's precondition is decided by the specification (TLC), not here.
"""
import itertools
import json
import os

SPEC = os.path.join(os.path.dirname(os.path.dirname(os.path.abspath(__file__))), 'spec')
with open(os.path.join(SPEC, 'chars.json')) as f:
    SC = json.load(f)
with open(os.path.join(SPEC, 'alphabets.json')) as f:
    ALPH = json.load(f)

TOKEN_TYPES = ['COMMENT', 'STRING', 'LPAREN', 'RPAREN', 'SLASH', 'ROLE', 'SYMBOL', 'ALIGNMENT', 'UNEXPECTED']
TOKEN_REP = {'COMMENT': '#c', 'STRING': '"s"', 'LPAREN': '(', 'RPAREN': ')', 'SLASH': '/', 'ROLE': ':r',
             'SYMBOL': 'a', 'ALIGNMENT': '~1', 'UNEXPECTED': '"'}


def all_strings(alphabet, maxlen, minlen=0):
    for n in range(minlen, maxlen + 1):
        for tup in itertools.product(alphabet, repeat=n):
            yield ''.join(tup)


def sample_strings(rng, alphabet, length, count):
    return [''.join(rng.choice(alphabet) for _ in range(length)) for _ in range(count)]


def render_types(tys):
    """Token-type sequence -> text: one token per line (matches MC_Parser.Toks)."""
    return '\n'.join(TOKEN_REP[t] for t in tys)


# ------------------------------------------------------------------ atoms
SYM_CHARS = 'abcxyz019-_.+*!?@$%&=<>|[]{};\'`,^#' + SC['eacute'] + SC['cjk'] + SC['cyr'] + SC['nbsp'] + SC['isp'] + SC['Eacute']
STR_CHARS = 'abc XYZ019()/:~#,^.-\'' + SC['eacute'] + SC['cjk'] + SC['nbsp'] + SC['ls'] + SC['nel'] + SC['tab'] + SC['isp']
VARS = ['a', 'b', 'c', 'd', 'e', 'x', 'y', 'z', 'a2', 'b10', 'n1', 'x0', '_', '_2', 'v1', 'i', 'go']
# ('cafe' + U+0301: a symbol that is not in Unicode normal form C - the notation does not normalise)
CONCEPTS = ['alpha', 'bark-01', 'dog', 'A', 'a', 'b', 'x', '"str"', 'have-mod-91', 'i', '-', '1', 'Ünï', SC['cjk'] + 'x', '_p_n_1', 'cafe\u0301',
            'A\u030a']
ROLES = [':ARG0', ':ARG1', ':ARG2', ':op1', ':op2', ':op10', ':mod', ':domain', ':polarity', ':quant', ':r', ':R', ':S',
         ':consist-of', ':prep-on-behalf-of', ':', ':x-y', ':snt1', ':name', ':wiki', ':accompanier', ':time']


def rand_symbol(rng, maxlen=6):
    n = rng.randint(1, maxlen)
    s = ''.join(rng.choice(SYM_CHARS) for _ in range(n))
    if s[0] == '#':
        s = 'h' + s[1:]
    return s


def rand_string_const(rng, maxlen=8):
    n = rng.randint(0, maxlen)
    out = ['"']
    for _ in range(n):
        r = rng.random()
        if r < 0.12:
            out.append('\\"')
        elif r < 0.2:
            out.append('\\\\')
        elif r < 0.25:
            out.append('\\n')
        else:
            out.append(rng.choice(STR_CHARS))
    r = rng.random()
    if r < 0.15:
        out.append('\\\\')          # a string ending in an escaped backslash: the next quote closes it
    elif r < 0.27:
        out.append(rand_alignment(rng))   # content that looks like an alignment right before the closing quote ("http://x/~3")
    elif r < 0.32:
        out.append(rng.choice(['~', '~e.', '~~1', ' ~2', '/~e.1,2']))
    out.append('"')
    return ''.join(out)


def rand_alignment(rng):
    pre = rng.choice(['', '', 'e.', 'e', 'E.', 'x', 'Z.'])
    # (now and then an index with a leading zero: "~e.07" reads as 7, O9)
    idx = ','.join(rng.choice(['0', '1', '2', '5', '10', '12', '7'] * 5 + ['07', '00']) for _ in range(rng.choice([1, 1, 1, 2, 3])))
    return '~' + pre + idx


def maybe_aln(rng, p):
    return rand_alignment(rng) if rng.random() < p else ''


# ------------------------------------------------------------------ trees
class TreeCfg:
    def __init__(self, **kw):
        self.max_nodes = 8
        self.max_depth = 5
        self.max_width = 4
        self.p_aln = 0.15          # alignment on roles / concepts / targets
        self.p_string = 0.15
        self.p_reent = 0.25        # atomic target that names a variable
        self.p_invert = 0.25       # role written with -of
        self.p_noconcept = 0.15    # node without '/'
        self.p_missing_concept = 0.05   # '/' with nothing after it
        self.p_missing_target = 0.05
        self.p_empty_node = 0.03   # nested ()
        self.p_number = 0.15
        self.wellformed = True     # each variable defined once, distinct triples, no inverted self loop, single -of
        self.roles = ROLES
        self.concepts = CONCEPTS
        self.vars = VARS
        self.p_meta = 0.3
        self.p_concept_is_var = 0.08
        self.p_colonless = 0.0     # role text without leading colon (hand-assembled trees)
        self.exotic_symbols = 0.1
        self.p_same_aln = 0.5      # a target alignment identical to the role alignment of the same branch
        self.p_forward = 0.3       # share of re-entrancies that may point forward
        self.p_pynum = 0.0         # numeric atoms as Python int/float objects (hand-assembled trees)
        self.__dict__.update(kw)


NUMBERS = ['0', '1', '-1', '0.0', '3.14', '1e5', '-0', '007', '12', '2']


MULTIKEY_HEADERS = ['# ::id doc.1 ::date 2020-01-01 ::annotator z\n', '# ::id 7  ::snt The dog barks.   ::lang en\n', '#::a 1::b 2\n',
                    '# ::tok a b c ::alignments 0-1 1-2 \t ::k\n# plain comment\n', '# ::snt x ::id\n',
                    # a field whose key is empty (the text after "::" starts with a blank)
                    '# :: text without a key\n', '# ::id 3 :: note to self ::k\n']


def rand_meta(rng):
    keys = ['id', 'snt', 'tok', 'alignments', 'k', 'save-date', 'x.y', 'Ü', '']
    n = rng.choice([1, 1, 2, 3])
    meta = {}
    for k in rng.sample(keys, n):
        r = rng.random()
        if r < 0.2:
            v = ''
        elif r < 0.5:
            v = rng.choice(['1', 'foo bar', 'The dog (barked); "loudly" # now', 'a:b : c', 'x' + SC['ls'] + 'y', SC['nbsp'] + 'z',
                            'tab' + SC['tab'] + 'sep', 'é' + SC['cjk'], ' lead', 'q ~e.1 / (a)'])
        else:
            v = ' '.join(rand_symbol(rng) for _ in range(rng.randint(1, 4)))
        meta[k] = v
    return meta


def random_tree(rng, cfg=None):
    """Returns (node, metadata).  node = (var, [(role, target), ...])."""
    cfg = cfg or TreeCfg()
    vars_pool = list(cfg.vars)
    rng.shuffle(vars_pool)
    n_nodes = rng.randint(1, cfg.max_nodes)
    allvars = vars_pool[:n_nodes]
    defined = []
    used_triples = set()
    budget = [n_nodes]

    def role(rng_):
        r = rng_.choice(cfg.roles)
        inv = rng_.random() < cfg.p_invert
        if inv:
            r = r + '-of'
            if not cfg.wellformed and rng_.random() < 0.2:
                r = r + '-of'
        if cfg.p_colonless and rng_.random() < cfg.p_colonless and len(r) > 1:
            r = r[1:]
        return r, inv

    def atom(rng_):
        r = rng_.random()
        if r < cfg.p_string:
            return rand_string_const(rng_)
        r -= cfg.p_string
        if r < cfg.p_number:
            if rng_.random() < cfg.p_pynum:
                return rng_.choice([0, 1, -1, 0.0, 3.5, 12])
            return rng_.choice(NUMBERS)
        if rng_.random() < cfg.exotic_symbols:
            return rand_symbol(rng_)
        return rng_.choice(['-', '+', 'imperative', 'expressive', 'val', 'x', 'foo', 'A', '"Kim"', '"http://x/y"'])

    def build(var, depth):
        defined.append(var)
        branches = []
        r = rng.random()
        if r < cfg.p_noconcept:
            pass
        elif r < cfg.p_noconcept + cfg.p_missing_concept:
            branches.append(('/', None))
        else:
            c = rng.choice(allvars) if rng.random() < cfg.p_concept_is_var else rng.choice(cfg.concepts)
            branches.append(('/', c + maybe_aln(rng, cfg.p_aln)))
        width = rng.randint(0, cfg.max_width)
        for _ in range(width):
            rl, inv = role(rng)
            r_aln = maybe_aln(rng, cfg.p_aln)
            rl_a = rl + r_aln
            x = rng.random()
            if budget[0] > 1 and depth < cfg.max_depth and x < 0.45:
                budget[0] -= 1
                nv = allvars[len(set(defined))] if len(set(defined)) < len(allvars) else None
                if not cfg.wellformed and defined and rng.random() < 0.12:
                    nv = rng.choice(defined)          # ill-formed: a variable defined a second time
                if nv is None:
                    continue
                branches.append((rl_a, build(nv, depth + 1)))
            elif x < 0.45 + cfg.p_reent and defined:
                # also forward references: a variable whose node is written later in the text
                tgt = rng.choice(allvars if (not cfg.wellformed or rng.random() < cfg.p_forward) else defined)
                if cfg.wellformed:
                    if tgt == var and inv:
                        continue
                    key = (tgt, rl[:-3], var) if inv else (var, rl, tgt)
                    if key in used_triples:
                        continue
                    used_triples.add(key)
                branches.append((rl_a, tgt + (r_aln if r_aln and rng.random() < cfg.p_same_aln else maybe_aln(rng, cfg.p_aln))))
            elif x < 0.45 + cfg.p_reent + cfg.p_missing_target:
                if cfg.wellformed:
                    key = (var, rl, None)
                    if key in used_triples:
                        continue
                    used_triples.add(key)
                branches.append((rl_a, None))
            elif x < 0.45 + cfg.p_reent + cfg.p_missing_target + cfg.p_empty_node and not cfg.wellformed:
                branches.append((rl_a, (None, [])))
            else:
                a = atom(rng)
                if cfg.wellformed:
                    if a in allvars:
                        continue
                    key = (var, rl, a)
                    if key in used_triples:
                        continue
                    used_triples.add(key)
                t_aln = r_aln if r_aln and rng.random() < cfg.p_same_aln else maybe_aln(rng, cfg.p_aln)
                branches.append((rl_a, a if not isinstance(a, str) else a + (t_aln if a else '')))
        return (var, branches)

    node = build(allvars[0], 0)
    if cfg.wellformed:
        # references to variables that never got a node would be attributes; that is fine (they are constants then)
        pass
    meta = rand_meta(rng) if rng.random() < cfg.p_meta else {}
    return node, meta


def deep_tree(rng, depth, with_concepts=True):
    """A chain nested *depth* levels deep."""
    node = ('v%d' % depth, [('/', 'c')] if with_concepts else [])
    for d in range(depth - 1, 0, -1):
        br = [('/', 'c%d' % d)] if with_concepts else []
        if rng.random() < 0.3:
            br.append((':a', 'k'))
        br.append((':r', node))
        if rng.random() < 0.3:
            br.append((':z', '"s"'))
        node = ('v%d' % d, br)
    return node


def node_to_json(node):
    var, branches = node
    return [var, [[r, node_to_json(t) if isinstance(t, tuple) else t] for r, t in branches]]


def json_to_node(j):
    var, branches = j
    return (var, [(r, json_to_node(t) if isinstance(t, list) else t) for r, t in branches])


# ------------------------------------------------------------ random text
FRAGS = ['(', ')', '/', ':', ':ARG0', ':r-of', 'a', 'b', 'x1', '"s t"', '"a\\"b"', '"x\\\\"', '"\\\\" "y"', '~1', '~e.2,3', '~E.1', ' ', '  ', '\n', '\t',
         '#', '# ::id 1', '# ::a 1  ::b two words  ::c', '"', '\\', '~', ',', '^', '.', '-', '0', '1.5', SC['nbsp'], SC['ls'], SC['vt'], SC['ff'], SC['cr'],
         SC['isp'], SC['nel'], SC['fs'], 'é', SC['cjk'], '::', ' ::k v', ':op1', '(a / b)', '(a :r (b))', 'instance(a, b)', ' ^ ',
         # blanks and other seams inside and right after an alignment list
         'b~1, 2', '~e.1 ,2', 'x~e.3, 4 ', ':r~1,2, 3', '~1,\t2', '~e. 1', '~ e.1', 'c~E.1,2,', '~1,,2', '~1.2', ':ARG0~e.1 , 2']


def random_text(rng, maxfrags=12):
    return ''.join(rng.choice(FRAGS) for _ in range(rng.randint(0, maxfrags)))


def mutate_text(rng, s):
    """Token-level damage to a valid text: delete / insert / swap / duplicate a fragment."""
    if not s:
        return rng.choice(FRAGS)
    i = rng.randrange(len(s))
    op = rng.random()
    if op < 0.3:
        j = min(len(s), i + rng.randint(1, 3))
        return s[:i] + s[j:]
    if op < 0.7:
        return s[:i] + rng.choice(FRAGS) + s[i:]
    if op < 0.85:
        j = rng.randrange(len(s))
        i, j = min(i, j), max(i, j)
        return s[:i] + s[j:j + 1] + s[i + 1:j] + s[i:i + 1] + s[j + 1:]
    return s[:i] + s[i:i + 3] + s[i:]


# ------------------------------------------------------------------ graphs
CONSTS = ['-', '+', 'x', 'val', '"Kim"', '"a b"', '"(p) :q ~r"', 0, 0.0, -1, 1, 3.5, None, 'imperative', '12', '"0"',
          '"he said \\"~10%\\""', '"\\"q\\" ~e.2"', '"C:\\\\"']     # escaped quotes before a tilde; a string ending in an escaped backslash
GROLES = [':ARG0', ':ARG1', ':ARG2', ':op1', ':op2', ':op10', ':mod', ':domain', ':polarity', ':quant', ':r', ':R', ':S',
          ':consist-of', ':x-y', ':time', ':name', ':', ':ARG0-of', ':r-of']


def random_graph(rng, max_vars=5, max_extra=5, max_attrs=4, inverted_roles=True, roles=None):
    """A well-formed weakly connected graph as a triple list (JSON-typed targets), in a random order."""
    roles = roles or GROLES
    if not inverted_roles:
        roles = [r for r in roles if not r.endswith('-of') or r == ':consist-of']
    n = rng.randint(1, max_vars)
    vs = rng.sample(VARS, n)
    tr = []
    for v in vs:
        c = rng.random()
        tr.append([v, ':instance', None if c < 0.2 else (rng.choice(vs) if c < 0.3 else rng.choice(CONCEPTS))])
    seen = set()

    def add(t):
        k = (t[0], t[1], repr(t[2]))
        if k not in seen:
            seen.add(k)
            tr.append(t)
    for i in range(1, n):
        j = rng.randrange(i)
        r = rng.choice(roles)
        add([vs[j], r, vs[i]] if rng.random() < 0.6 else [vs[i], r, vs[j]])
    for _ in range(rng.randint(0, max_extra)):
        add([rng.choice(vs), rng.choice(roles), rng.choice(vs)])
    for _ in range(rng.randint(0, max_attrs)):
        add([rng.choice(vs), rng.choice(roles), rng.choice(CONSTS)])
    order = rng.random()
    if order < 0.5:
        rng.shuffle(tr)
    elif order < 0.7:
        tr.reverse()
    return tr, vs


def corrupt_markers(rng, tr, epi, vs, edits=1):
    """
    Edit history on the layout markers (Push/POP) and the order of a decoded graph (property C06).
    Alignment markers stay with their triples; only layout markers are dropped, added, swapped or left
    behind when triples move.
    """
    tr = [list(t) for t in tr]
    lay = [[dict(m) for m in e if m['m'] in ('push', 'pop')] for e in epi]
    aln = [[dict(m) for m in e if m['m'] not in ('push', 'pop')] for e in epi]
    for _ in range(edits):
        op = rng.choice(['drop', 'drop_all_pops', 'add_push', 'add_pop', 'swap', 'shuffle', 'rotate', 'dup_push', 'strip', 'move'])
        n = len(tr)
        if n == 0:
            break
        if op == 'drop':
            for e in lay:
                e[:] = [m for m in e if rng.random() < 0.6]
        elif op == 'drop_all_pops':
            for e in lay:
                e[:] = [m for m in e if m['m'] != 'pop']
        elif op == 'add_push':
            lay[rng.randrange(n)].insert(0, {'m': 'push', 'v': rng.choice(vs)})
        elif op == 'dup_push':
            pushes = [m for e in lay for m in e if m['m'] == 'push']
            if pushes:
                lay[rng.randrange(n)].append(dict(rng.choice(pushes)))
        elif op == 'add_pop':
            for _ in range(rng.randint(1, 2)):
                lay[rng.randrange(n)].append({'m': 'pop', 'v': ''})
        elif op == 'swap' and n >= 2:
            i, j = rng.sample(range(n), 2)
            lay[i], lay[j] = lay[j], lay[i]
        elif op == 'shuffle':
            perm = list(range(n))
            rng.shuffle(perm)
            tr = [tr[i] for i in perm]           # layout markers stay in place: they now sit on other triples
            aln = [aln[i] for i in perm]
        elif op == 'rotate':
            k = rng.randrange(n)
            tr, lay, aln = tr[k:] + tr[:k], lay[k:] + lay[:k], aln[k:] + aln[:k]
        elif op == 'move' and n >= 2:
            i, j = rng.sample(range(n), 2)
            t_, l_, a_ = tr.pop(i), lay.pop(i), aln.pop(i)
            tr.insert(j, t_)
            lay.insert(j, l_)
            aln.insert(j, a_)
        elif op == 'strip':
            lay[rng.randrange(n)] = []
    # role alignments first, then layout, then target alignments would be the decoded order; any order is a valid history
    return tr, [a + l for a, l in zip(aln, lay)]


def arbitrary_triples(rng, maxn=6):
    """Any list of triples: ill-formed, disconnected, duplicates, missing instances, odd targets."""
    vs = rng.sample(VARS, rng.randint(1, 4))
    pool = vs + ['k', 'q']
    tr = []
    for _ in range(rng.randint(0, maxn)):
        r = rng.random()
        if r < 0.3:
            tr.append([rng.choice(pool), ':instance', rng.choice([None, 'c', rng.choice(pool)])])
        elif r < 0.8:
            tr.append([rng.choice(pool), rng.choice(GROLES), rng.choice(pool)])
        else:
            tr.append([rng.choice(pool), rng.choice(GROLES), rng.choice(CONSTS)])
        if rng.random() < 0.1 and tr:
            tr.append(list(rng.choice(tr)))
    return tr, vs
