"""C16 (Model.errors, --check exit status) and C20 (the command equals the library pipeline)."""
import itertools

from . import gen, tlc
from .checks_layout import CUSTOM, _q
from .checks_transform import AMR_CONCEPTS, AMR_ROLES, MINI_CONCEPTS, MINI_ROLES
from .framework import pmake


def _export(c, module, cfg, label):
    cases, res = tlc.export_cases(module, cfg=cfg, workers=4, heap='6g')
    c.states += res['distinct']
    c.transitions += res['states']
    c.mc_runs.append(dict(module=module + ' (export run)', cfg=cfg, distinct_states=res['distinct'], states_generated=res['states'],
                          wall_s=round(res['wall'], 1), exported=len(cases)))
    return cases


def _stream_trees(c, n, model):
    import penman
    roles, concepts = (AMR_ROLES, AMR_CONCEPTS) if model == 'amr' else (MINI_ROLES, MINI_CONCEPTS)
    if model in ('default', 'noop'):
        # (no role table: a role ending in -of is an inverted role here, and the generator's inversion of it writes an over-inverted
        # one, O12 - wanted for --canonicalize-roles; whether a clause applies to such an input is decided by J_Cli!InputOK)
        roles = roles + [':foo', ':bar-baz']
    out = []
    for i in range(n):
        cfg = gen.TreeCfg(wellformed=True, roles=roles, concepts=concepts, max_nodes=6, max_depth=4, p_invert=0.25,
                          vars=['a', 'b', 'c', 'd', 'e', 'x', 'y', 'z', 'n1', 'v1', 'a2', '_'], p_meta=0.5, exotic_symbols=0.0,
                          p_noconcept=0.05, p_missing_concept=0.0, p_missing_target=0.02, p_concept_is_var=0.02)
        node, meta = gen.random_tree(c.rng, cfg)
        s = penman.format(penman.Tree(node, metadata=meta), indent=c.rng.choice([None, -1, 0, 2]), compact=c.rng.random() < 0.3)
        if not meta and c.rng.random() < 0.3:
            s = c.rng.choice(gen.MULTIKEY_HEADERS) + s       # several keys on one comment line
        out.append(s)
    return out


def _twins(c, model):
    """Two texts of one graph that differ only in where a re-entrant edge is written (under the parent, or inverted under
    the child): same top, same triples in the same order, same nodes opened at the same triples - only the places where
    nodes are closed differ.  Anything the tool remembers about one must not be applied to the other."""
    roles, concepts = (AMR_ROLES, AMR_CONCEPTS) if model == 'amr' else (MINI_ROLES, MINI_CONCEPTS)
    plain = [r for r in roles if not r.endswith('-of')]
    r1, r3 = c.rng.choice(plain), c.rng.choice(plain)
    r2 = ':mod' if ':mod' in plain and c.rng.random() < 0.6 else c.rng.choice(plain)
    if r2 == r1:                       # the two edges from a to b must be different triples (well-formed)
        r1 = c.rng.choice([r for r in plain if r != r2])
    c1, c2, c3 = (c.rng.choice(concepts) for _ in range(3))
    inner = ' %s (c / %s)' % (r3, c3) if c.rng.random() < 0.5 else ''
    a = '(a / %s %s (b / %s%s) %s b)' % (c1, r1, c2, inner, r2)
    b = '(a / %s %s (b / %s%s %s-of a))' % (c1, r1, c2, inner, r2)
    return [a, b] if c.rng.random() < 0.5 else [b, a]


def _stream(c, texts):
    sep = c.rng.choice(['\n\n', '\n\n', '\n', '\n\n\n', ' '])
    return sep.join(texts) + c.rng.choice(['', '\n'])


# ------------------------------------------------------------------------ C20
def check_C20(c):
    c.mc('MC_CliOpts', _q(c, 'MC_CliOpts_q.cfg', 'MC_CliOpts_t.cfg'), workers=16, heap='10g')
    plans = _export(c, 'MC_CliOpts', 'MC_CliOptsX.cfg', 'plans')
    # every plan exported; a seeded sample is replayed
    sample = c.rng.sample(plans, min(len(plans), _q(c, 300, 8000)))
    # every option value of the full value space alone and every pair of option values (Cli!NearDefault): all replayed
    near = _export(c, 'MC_CliOpts', 'MC_CliOptsN.cfg', 'plans-near-default')
    sample = near + sample
    # make sure the option interactions named in the property are present
    must = [p for p in plans if '--reconfigure' in p['args'] and any(a in p['args'] for a in ('--amr', '--noop', '--model'))][:40]
    must += [p for p in plans if '--reify-edges' in p['args'] and '--reify-attributes' in p['args'] and '--amr' in p['args'] and p['idempotent']][:40]
    jobs = []
    pools = {}
    for plan in sample + must:
        model = 'default'
        for a in plan['args']:
            if a in ('--amr', '--noop'):
                model = a[2:]
            elif a == '--model':
                model = 'file'
        key = 'amr' if model == 'amr' else ('miniamr' if model == 'file' else model)
        if key not in pools:
            pools[key] = _stream_trees(c, _q(c, 60, 400), key)
        nfiles = c.rng.choice([1, 1, 2])
        inputs = [_stream(c, c.rng.sample(pools[key], c.rng.randint(0 if nfiles > 1 else 1, 3))) for _ in range(nfiles)]
        if c.rng.random() < 0.12:
            inputs[0] = '# ::id 1\n(a / alpha :mod-of -)\n\n' + inputs[0]        # inverted attribute with a reifiable deinversion
        iso = c.rng.random() < 0.08
        if c.rng.random() < 0.15:
            iso = True
            tw = _twins(c, key)
            if nfiles == 2 and c.rng.random() < 0.5:                           # one twin per input file
                inputs = [_stream(c, [tw[0]] + ([inputs[0]] if inputs[0].strip() else [])), _stream(c, [tw[1]])]
            else:
                k = c.rng.randrange(nfiles)
                inputs[k] = _stream(c, tw + ([inputs[k]] if inputs[k].strip() else []))
        stdin = nfiles == 1 and c.rng.random() < 0.4
        jobs.append(('tr_cli', dict(plan=plan, inputs=inputs, model=model, stdin=stdin, subproc=c.rng.random() < 0.04, isolated=iso)))
    traces = pmake(jobs, procs=12, chunksize=8)
    c.judge('J_Cli', traces, 'cli', nontrivial=lambda t: len(t['in_graphs']) >= 1 and len(t['plan']['args']) >= 1)
    c.rule = ('option sets enumerated by TLC (MC_CliOpts: model x 5 normalisation switches x reconfigure key x rearrange key list x '
              'make-variables x indent x compact x triples x check), every option set within two option values of the empty one over the full '
              'value space and a seeded sample of the product space (%d replayed together) plus the interactions named in the '
              'property; inputs: streams of 0-3 random well-formed graphs with metadata per input over the model inventory, 1-2 files '
              'or stdin, separators blank line / newline / space; 15%% of the runs contain two layouts of one graph that differ only in '
              'where nodes are closed; for these and 8%% of the others the reference pipeline runs in one fresh interpreter per graph; 4%% of '
              'the tool runs through a real subprocess; non-trivial = at least one graph and '
              'one option' % len(sample))
    c.bounds = {'plans_exported': len(plans) + len(near), 'plans_near_default_all_replayed': len(near), 'plans_replayed': len(sample) + len(must)}
    c.assumptions += ['the stage semantics are the library functions (each covered by its own property); the specification contributes '
                      'order, arguments, separators, loops and exit status',
                      'F17 (--reify-edges with --reify-attributes is not a fixed point on inverted attributes), F19 and F23 (--check metadata describe the graph '
                      'before later stages / an inverted reified attribute) are open known findings',
                      'random keys are judged on exit status only']


# ------------------------------------------------------------------------ C16
GOOD = {'amr': ['(a / alpha :ARG0 (b / beta))', '# ::id g\n(c / chapter :mod 7)', '(w / want-01 :ARG0 (b / boy) :ARG1 (g / go-02 :ARG0 b))', '(x / x :op1 "s" :ARG1-of (y / y))'],
        'file': ['(a / alpha :ARG0 (b / beta))', '(c / c :mod (d / d) :op12 x)', '(a / a :consist-of b)'],
        'default': ['(a / alpha :anything (b / beta))', '(a)']}
BAD = {'amr': ['(a / alpha :foo (b / beta))', '(a / alpha :ARG0 (b / beta :ARG10 c))', '(a / x :ARG0-of-of b)', '# ::id bad\n(a / alpha :mod-of-of 7 :bar 8)', '(a / a :ARG0 (b / b :snt (c / c)))'],
       'file': ['(a / alpha :foo (b / beta))', '(a / a :ARG2 b)', '(a / a :op x)'],
       'default': []}
# a graph whose only error is a graph-level one (reported without a triple): the empty graph
for _k in BAD:
    BAD[_k].append('()')


def check_C16(c):
    c.mc('MC_CliRun', 'MC_CliRun.cfg', workers=8, heap='4g')
    # unbounded: the exit-status accumulation as an inductive invariant, discharged by Apalache
    c.mc_runs.append(tlc.apalache_inductive('Apa_CliExit', goal='ExitIffAnyBad'))
    runs = _export(c, 'MC_CliRun', 'MC_CliRunX.cfg', 'runs')
    jobs = []
    # (1) the command over every sequence of inputs of compliant / non-compliant graphs
    runs = [r for r in runs if r['check']]
    if c.tier == 'quick':
        runs = c.rng.sample(runs, min(len(runs), 500))
    for r in runs:
        model = c.rng.choice(['amr', 'amr', 'file'])
        inputs = []
        for seq in r['inputs']:
            inputs.append('\n\n'.join(c.rng.choice(GOOD[model] if k == 'good' else BAD[model]) for k in seq) + '\n')
        stdin = len(inputs) == 1 and c.rng.random() < 0.5
        extra = c.rng.choice([[], [], [], ['--reconfigure', 'canonical'], ['--reconfigure', 'original'], ['--rearrange', 'canonical'], ['--compact']])
        jobs.append(('tr_clicheck', dict(inputs=inputs, model=model, stdin=stdin, subproc=c.rng.random() < 0.05, quiet=c.rng.random() < 0.08,
                                         extra=extra)))
    n_cli = len(jobs)
    # (2) Model.errors on all small triple lists and random ones
    roles = [':instance', ':ARG0', ':foo', ':ARG0-of', ':foo-of', ':ARG0-of-of', ':mod', ':op1', ':op', ':TOP', ':ARG0abc', ':mod-fo', ':op1xof']
    vs = ['a', 'b', 'c']
    triples = [[s, r, t] for s in vs[:2] for r in roles[:6] for t in ['a', 'b', 'x', None]]
    lists = [[]] + [[t] for t in triples]
    for _ in range(_q(c, 2500, 60000)):
        n = c.rng.randint(2, 6)
        lists.append([[c.rng.choice(vs), c.rng.choice(roles), c.rng.choice(vs + ['x', None, 'a'])] for _ in range(n)])
    for a, b in itertools.product(triples[:24], repeat=2):
        lists.append([a, b])
    for tr in lists:
        for xtop in c.rng.sample([None, 'a', 'b', 'z', ''], 2):
            mk = dict(model='custom', mdl=c.rng.choice(CUSTOM)) if c.rng.random() < 0.15 else dict(model=c.rng.choice(['default', 'amr', 'miniamr']))
            jobs.append(('tr_errors', dict(tr=tr, xtop=xtop, **mk)))
    # (2a) custom tables with their own vocabulary: the roles they define, the keys and the values of their normalisation entries
    # (a key or a value need not be a defined role), each plain and inverted - whether a role is valid is a matter of the role
    # table alone
    from .checks_model import CHAINS
    tables = CUSTOM + CHAINS + [
        {'lits': [':ARG0', ':mod'], 'pats': [], 'noop': False, 'norm': [[':agent', ':ARG0'], [':mod', ':modx'], [':ARG0-of', ':by']], 'reifs': []}]
    for mdl in tables:
        own = sorted(set(mdl['lits']) | {k for k, _ in mdl['norm']} | {v for _, v in mdl['norm']} | {p[0] + '1' for p in mdl['pats']})
        own = own + [r + '-of' for r in own] + [':instance', ':free']
        for _ in range(_q(c, 60, 1500)):
            n = c.rng.randint(1, 4)
            tr = [[c.rng.choice(vs), c.rng.choice(own), c.rng.choice(vs + ['x', None])] for _ in range(n)]
            jobs.append(('tr_errors', dict(tr=tr, xtop=c.rng.choice([None, 'a']), model='custom', mdl=mdl)))
    # (2c) variables spelled like numerals (legal: a variable is any symbol) in place of a, b, c
    nvs = ['1', '10', '007', '1e5', '-0.0', 'a']
    for _ in range(_q(c, 400, 8000)):
        n = c.rng.randint(2, 6)
        tr = [[c.rng.choice(nvs), c.rng.choice(roles), c.rng.choice(nvs + ['x', None])] for _ in range(n)]
        jobs.append(('tr_errors', dict(tr=tr, xtop=c.rng.choice([None, '1', '10', 'a']), model=c.rng.choice(['default', 'amr', 'miniamr']))))
    # (2b) graphs with more nodes than the call is given stack frames: a chain and a comb of 400 nodes, connected and with a loose end
    for n, shape in ((400, 'chain'), (400, 'comb'), (300, 'chain-broken')):
        big = []
        for i in range(n):
            big.append(['v%d' % i, ':instance', 'c'])
            if i + 1 < n and not (shape == 'chain-broken' and i == 700):
                big.append(['v%d' % i, ':ARG0', 'v%d' % (i + 1)] if shape != 'comb' or i % 2 == 0 else ['v%d' % (i + 1), ':ARG1', 'v%d' % i])
        jobs.append(('tr_errors', dict(tr=big, xtop='v0', model='amr', headroom=150)))
    # (3) decoded graphs (non-empty top node): only role errors possible
    for model in ('amr', 'miniamr', 'default'):
        for text in _stream_trees(c, _q(c, 300, 6000), model):
            jobs.append(('tr_errors', dict(tr=None, decoded_from=text, model=model)))
    traces = pmake(jobs, procs=12, optimized_share=0.03)
    cli = [t for t in traces if t['kind'] == 'check']
    err = [t for t in traces if t['kind'] == 'errors']
    c.judge('J_Cli', cli, 'check-cli', nontrivial=lambda t: sum(len(x) for x in t['inputs']) >= 1)
    c.judge('J_Model', err, 'errors', nontrivial=lambda t: len(t['g']['tr']) >= 1)
    c.rule = ('the command with --check over every sequence of up to 3 inputs (files, or stdin for a single input) of up to 2 graphs '
              'from {compliant, non-compliant} in every order, as enumerated by TLC (MC_CliRun; %d replayed), texts drawn from a pool '
              'per model {AMR, model file}; Model.errors on every triple list of length <= 1 and pairs over a small alphabet with defined, '
              'undefined, singly and doubly inverted roles x explicit tops {none, a, b, phantom, empty} x models, random lists up to 6 '
              'triples, lists over the own vocabulary of 8 custom tables (defined roles, keys and values of normalisation entries, plain and inverted), '
              'and graphs decoded from random texts; non-trivial = non-empty' % n_cli)
    c.assumptions += ['one error-N metadata entry per offending triple is required (O8), carrying one of its messages']


REGISTRY = {'C20': check_C20, 'C16': check_C16}
