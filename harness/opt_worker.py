"""Run driver jobs in a strict interpreter - started with -O (asserts stripped, __debug__ false) and with warnings from the
library turned into errors:  python -O -B -m harness.opt_worker
Reads [(driver name, kwargs), ...] as JSON from stdin, writes one JSON trace per line."""
import json
import sys


def main():
    # a strict environment: besides -O, every warning issued from the library's own modules is an error (what a test run
    # with -W error sees); the library is silent under it at the pinned commit
    import warnings
    warnings.filterwarnings('error', module=r'penman(\.|$)')
    from . import framework
    jobs = json.load(sys.stdin)
    for name, kw in jobs:
        t = framework._call((name, kw))
        sys.stdout.write(json.dumps(t, ensure_ascii=True) + '\n')


if __name__ == '__main__':
    main()
