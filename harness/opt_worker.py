"""Run driver jobs in an interpreter started with -O (asserts stripped, __debug__ false):  python -O -B -m harness.opt_worker
Reads [(driver name, kwargs), ...] as JSON from stdin, writes one JSON trace per line."""
import json
import sys


def main():
    from . import framework
    jobs = json.load(sys.stdin)
    for name, kw in jobs:
        t = framework._call((name, kw))
        sys.stdout.write(json.dumps(t, ensure_ascii=True) + '\n')


if __name__ == '__main__':
    main()
