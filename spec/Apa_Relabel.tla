------------------------------- MODULE Apa_Relabel -------------------------------
(***************************************************************************)
(* The naming loop of Tree.reset_variables (property C10) for Apalache,     *)
(* with names and variables abstracted to integers and no bound on their    *)
(* values: nodes are named one at a time, each with some candidate that is  *)
(* not in use yet (the first free candidate of the format is one such).     *)
(* IndInv is inductive and implies that the finished map is a bijection     *)
(* from the variables onto the names in use - for every number of index     *)
(* candidates tried and whatever the candidates are, which the bounded TLC  *)
(* instance MC_Relabel covers only for its alphabet.  Gen(n) bounds the     *)
(* number of nodes of the symbolic tree (8), not the values.                *)
(*   apalache-mc check --init=Init    --inv=IndInv --length=0               *)
(*   apalache-mc check --init=IndInit --inv=IndInv --length=1               *)
(*   apalache-mc check --init=IndInit --inv=Bijection --length=0            *)
(***************************************************************************)
EXTENDS Integers, FiniteSets, Apalache
VARIABLES
    \* @type: Set(Int);
    vars,
    \* @type: Set(Int);
    done,
    \* @type: Int -> Int;
    name,
    \* @type: Set(Int);
    used
Init == /\ vars = Gen(8)
        /\ done = {}
        /\ name = [m \in {} |-> 0]
        /\ used = {}
\* node n (not named yet) gets a candidate x that no earlier node was given
Name(n, x) == /\ n \in vars \ done
              /\ x \notin used
              /\ done' = done \cup {n}
              /\ name' = [m \in done \cup {n} |-> IF m = n THEN x ELSE name[m]]
              /\ used' = used \cup {x}
              /\ UNCHANGED vars
Next == \E n \in vars : \E x \in Int : Name(n, x)
IndInv == /\ done \subseteq vars
          /\ DOMAIN name = done
          /\ used = {name[m] : m \in done}
          /\ \A a, b \in done : name[a] = name[b] => a = b
IndInit == /\ vars = Gen(8) /\ done = Gen(8) /\ used = Gen(8) /\ name = Gen(8)
           /\ IndInv
Bijection == done = vars => (/\ \A a, b \in vars : name[a] = name[b] => a = b
                             /\ used = {name[m] : m \in vars})
=============================================================================
