SPECIFICATION Spec
CONSTANT FullSpace = TRUE
INVARIANT Out
CHECK_DEADLOCK FALSE
