------------------------------- MODULE MC_CliRun -------------------------------
(* The run of the tool as a machine over inputs of compliant ("good") and           *)
(* non-compliant ("bad") graphs: inputs in order, graphs in order, one output per    *)
(* graph, exit status 1 iff --check is given and some graph of some input is bad     *)
(* (property C16; the accumulation must never overwrite an earlier failure).         *)
EXTENDS Naturals, Sequences, FiniteSets, TLC, Json
CONSTANTS MaxFiles, MaxGraphs
VARIABLES check, inputs, fi, gi, exit, emitted, pc
vars == <<check, inputs, fi, gi, exit, emitted, pc>>
GraphSeqs == UNION {[1..n -> {"good", "bad"}] : n \in 0..MaxGraphs}
InputSets == UNION {[1..n -> GraphSeqs] : n \in 1..MaxFiles}
Init == check \in BOOLEAN /\ inputs \in InputSets /\ pc = "open" /\ fi = 1 /\ gi = 0 /\ exit = 0 /\ emitted = <<>>
Open == pc = "open" /\ fi <= Len(inputs) /\ gi' = 1 /\ pc' = "graph" /\ UNCHANGED <<check, inputs, fi, exit, emitted>>
Graph == pc = "graph" /\ gi <= Len(inputs[fi])
         /\ exit' = (IF check /\ inputs[fi][gi] = "bad" THEN 1 ELSE exit)
         /\ emitted' = Append(emitted, <<fi, gi>>) /\ gi' = gi + 1 /\ UNCHANGED <<check, inputs, fi, pc>>
Close == pc = "graph" /\ gi > Len(inputs[fi]) /\ fi' = fi + 1 /\ pc' = "open" /\ UNCHANGED <<check, inputs, gi, exit, emitted>>
Exit == pc = "open" /\ fi > Len(inputs) /\ pc' = "done" /\ UNCHANGED <<check, inputs, fi, gi, exit, emitted>>
Next == Open \/ Graph \/ Close \/ Exit
Spec == Init /\ [][Next]_vars /\ WF_vars(Next)
AnyBad == \E f \in DOMAIN inputs : \E g \in DOMAIN inputs[f] : inputs[f][g] = "bad"
ExitIffAnyBad == pc = "done" => (exit = 1 <=> (check /\ AnyBad))
ExitMonotone == [][exit' >= exit]_vars
OnePerGraphInOrder == pc = "done" =>
    /\ Len(emitted) = Cardinality({p \in (1..MaxFiles) \X (1..MaxGraphs) : p[1] \in DOMAIN inputs /\ p[2] \in DOMAIN inputs[p[1]]})
    /\ \A i \in 1..(Len(emitted) - 1) : emitted[i][1] < emitted[i + 1][1] \/ (emitted[i][1] = emitted[i + 1][1] /\ emitted[i][2] + 1 = emitted[i + 1][2])
Terminates == <>(pc = "done")
Export == pc = "done" => PrintT("X|" \o ToJson([check |-> check, inputs |-> inputs, exit |-> exit, emitted |-> Len(emitted)]))
=============================================================================
