SPECIFICATION Spec
CONSTANT MaxT = 3
INVARIANT Safe
INVARIANT RoundTrip
INVARIANT VariantsAgree
INVARIANT RolesColon
CHECK_DEADLOCK FALSE
