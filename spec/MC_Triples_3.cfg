SPECIFICATION Spec
CONSTANT MaxT = 3
INVARIANT Safe
INVARIANT RoundTrip
INVARIANT VariantsAgree
INVARIANT RolesColon
INVARIANT MixedAgree
CHECK_DEADLOCK FALSE
