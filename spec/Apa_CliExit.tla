------------------------------- MODULE Apa_CliExit -------------------------------
(***************************************************************************)
(* Unbounded version of the exit-status clause of property C16, for         *)
(* Apalache: the command processes an unbounded stream of events - the      *)
(* next graph of the current input is compliant or not, or the current      *)
(* input ends and the next one is opened - and accumulates its exit status. *)
(* IndInv is an inductive invariant (checked with                           *)
(*   apalache-mc check --init=IndInit --inv=IndInv --length=1               *)
(*   apalache-mc check --init=Init    --inv=IndInv --length=0 )             *)
(* and implies ExitIffAnyBad for every number of inputs and graphs, which   *)
(* the bounded TLC instance MC_CliRun only covers up to 3 x 2.              *)
(***************************************************************************)
EXTENDS Integers
VARIABLES
    \* @type: Bool;
    check,
    \* @type: Int;
    exit,
    \* @type: Bool;
    seenBad,
    \* @type: Int;
    graphs,
    \* @type: Int;
    emitted,
    \* @type: Bool;
    done
Init == check \in BOOLEAN /\ exit = 0 /\ seenBad = FALSE /\ graphs = 0 /\ emitted = 0 /\ done = FALSE
\* one graph: pipeline, check (the status is or-ed in, never overwritten), emit
Graph(bad) == /\ ~done
              /\ exit' = IF check /\ bad THEN 1 ELSE exit
              /\ seenBad' = (seenBad \/ bad)
              /\ graphs' = graphs + 1 /\ emitted' = emitted + 1
              /\ UNCHANGED <<check, done>>
\* the current input ends; the status carries over to the next input
NextInput == ~done /\ UNCHANGED <<check, exit, seenBad, graphs, emitted, done>>
Finish == ~done /\ done' = TRUE /\ UNCHANGED <<check, exit, seenBad, graphs, emitted>>
Next == Graph(TRUE) \/ Graph(FALSE) \/ NextInput \/ Finish
IndInv == /\ exit \in {0, 1}
          /\ (exit = 1) <=> (check /\ seenBad)
          /\ emitted = graphs /\ graphs >= 0
IndInit == check \in BOOLEAN /\ exit \in {0, 1} /\ seenBad \in BOOLEAN /\ graphs \in Int /\ emitted \in Int /\ done \in BOOLEAN /\ IndInv
ExitIffAnyBad == done => ((exit = 1) <=> (check /\ seenBad))
=============================================================================
