------------------------------- MODULE MC_Triples -------------------------------
(* Bounded-exhaustive instance for property C19: every list of up to MaxT        *)
(* triples over small source / role / target alphabets (targets include quoted   *)
(* strings with blanks, commas, parentheses and carets) is written in both line  *)
(* styles and in every documented spacing variant and read back.                 *)
EXTENDS Triples
CONSTANT MaxT
VARIABLE ts
Srcs == {"a", "b1"}
Rls == {":instance", ":ARG0-of", ":r"}
Tgts == {"b1", "-", "0.5", "\"x y\"", "\"a,b\"", "\"(p) ^ q(r, s)\"", "\"\"", "\"\\\"e\\\"\""}
Init == ts = <<>>
Next == Len(ts) < MaxT /\ \E s \in Srcs, r \in Rls, t \in Tgts : ts' = Append(ts, <<s, r, t>>)
Spec == Init /\ [][Next]_ts
Commas == {",", ", ", " ,", " , "}
Carets == {"^", " ^", " ^ ", " ^" \o SC.lf, SC.lf \o "^" \o SC.lf}
Variant(cm, ca) == Join([k \in DOMAIN ts |-> StripColons(ts[k][2]) \o "(" \o ts[k][1] \o cm \o ts[k][3] \o ")"], ca)
Safe == Len(ts) >= 1 => TripleSafe(ts)
RoundTrip == Len(ts) >= 1 => \A ind \in BOOLEAN : LET r == ParseTriples(FmtTriples(ts, ind)) IN r.ok /\ r.ts = ts
VariantsAgree == Len(ts) >= 1 => \A cm \in Commas, ca \in Carets : LET r == ParseTriples(Variant(cm, ca)) IN r.ok /\ r.ts = ts
\* the spacing of every conjunction sign chosen independently (a glued sign followed by a spaced one, ...)
RECURSIVE MixedJoin(_, _, _)
MixedJoin(parts, cas, k) == IF k > Len(parts) THEN "" ELSE IF k = Len(parts) THEN parts[k] ELSE parts[k] \o cas[k] \o MixedJoin(parts, cas, k + 1)
MixedAgree == Len(ts) >= 2 => \A cas \in [1..(Len(ts) - 1) -> Carets] :
    LET parts == [k \in DOMAIN ts |-> StripColons(ts[k][2]) \o "(" \o ts[k][1] \o ", " \o ts[k][3] \o ")"]
        r == ParseTriples(MixedJoin(parts, cas, 1)) IN r.ok /\ r.ts = ts
RolesColon == Len(ts) >= 1 => LET r == ParseTriples(FmtTriples(ts, TRUE)) IN \A k \in DOMAIN r.ts : StartsWith(r.ts[k][2], ":")
=============================================================================
