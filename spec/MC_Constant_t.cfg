SPECIFICATION Spec
CONSTANT MaxQ = 4
CONSTANT MaxA = 6
INVARIANT QuoteIsOneStringToken
INVARIANT QuoteAlsoInTripleMode
INVARIANT QuoteIsAscii
INVARIANT UnquoteInverts
INVARIANT QuoteTypedString
INVARIANT EvalTotal
INVARIANT NumberIffJsonSyntax
INVARIANT NoneOnlyForEmpty
INVARIANT ErrorIffUnbalanced
INVARIANT TypeMatchesKind
CHECK_DEADLOCK FALSE
