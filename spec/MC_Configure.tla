------------------------------- MODULE MC_Configure -------------------------------
(***************************************************************************)
(* The algorithm of configure (graph -> tree) as a PlusCal machine: the      *)
(* marker-driven single pass (_preconfigure, _configure_node as a recursive  *)
(* procedure over a heap of nodes) and the improvisation loop (_find_next,   *)
(* _get_or_establish_site, deferral of triples that do not fit).             *)
(*                                                                           *)
(* MODE = "corrupt": a generator phase builds every graph over two           *)
(* variables with up to MAXX further triples inserted at any position, each  *)
(* carrying Push(a), Push(b) or no Push and an optional POP, for either top. *)
(* TLC checks at termination: LayoutError iff the graph is not connected     *)
(* from the top, otherwise the tree denotes the same graph (properties C03   *)
(* and C06 for the algorithm), plus Conservation, progress of every          *)
(* improvisation round and Termination.                                      *)
(* MODE = "roundtrip": the generator builds every well-formed tree up to     *)
(* MAXX branches, the input is its documented reading (Interpret); TLC       *)
(* checks that the machine never improvises and returns the normal form of   *)
(* the tree (property C02 for the marker protocol).                          *)
(* GUARD = FALSE is the algorithm of the pinned commit (refuted: finding     *)
(* F14); GUARD = TRUE ignores a Push for a variable that already has a node. *)
(***************************************************************************)
EXTENDS Interpret
CONSTANTS GUARD, MAXX, MODE, defaultInitValue
M == Models["default"]
V == {"a", "b"}
Inst == [a |-> <<"a", ":instance", "A">>, b |-> <<"b", ":instance", NULL>>]
Extras == {<<"a", ":R", "b">>, <<"b", ":R", "a">>, <<"a", ":R-of", "b">>, <<"a", ":S", "b">>, <<"a", ":R", "x">>}
PushOpts == {<<>>, <<Mk("push", "a")>>, <<Mk("push", "b")>>}
PopOpts  == {<<>>, <<POPm>>}
StripPops(d) == LET RECURSIVE F(_)
                    F(x) == IF Len(x) > 0 /\ x[Len(x)].kind = "pop" THEN F(SubSeq(x, 1, Len(x) - 1)) ELSE x
                IN F(d)
VarsOf(inp) == {inp.tr[i][1] : i \in DOMAIN inp.tr}

(* ---- tree generator for MODE = "roundtrip" ---- *)
TRoles == {":R", ":R-of", ":S"}
TAtoms == {"x", "a", "b", "c", NULL}
TConcepts == {"A", "a", NULL}
TMaxD(t) == IF Len(t.br) = 0 THEN 0 ELSE LET l == t.br[Len(t.br)] IN IF l.kind = "node" THEN l.d + 1 ELSE l.d
TConceptSlot(t, d) == IF Len(t.br) = 0 THEN d = 0 ELSE LET l == t.br[Len(t.br)] IN l.kind = "node" /\ d = l.d + 1
TBr(d, role, kind, val) == [d |-> d, role |-> role, kind |-> kind, val |-> val]
TreeExt(t) == {[t EXCEPT !.br = Append(@, TBr(d, "/", "atom", c))] : <<d, c>> \in {x \in (0..TMaxD(t)) \X TConcepts : TConceptSlot(t, x[1])}}
              \cup {[t EXCEPT !.br = Append(@, TBr(d, r, "atom", a))] : <<d, r, a>> \in (0..TMaxD(t)) \X TRoles \X TAtoms}
              \cup {[t EXCEPT !.br = Append(@, TBr(d, r, "node", v))] : <<d, r, v>> \in (0..TMaxD(t)) \X TRoles \X ({"b", "c"} \ NodeVars(t))}

(* ---- _preconfigure ---- *)
RECURSIVE PreEpis(_, _, _, _, _, _, _)
\* returns <<triple, push, pops, pushed>>
PreEpis(epis, j, orig, trp, push, npops, pushed) ==
    IF j > Len(epis) THEN <<trp, push, npops, pushed>>
    ELSE LET e == epis[j] IN
         IF e.m = "pop" THEN PreEpis(epis, j + 1, orig, trp, push, npops + 1, pushed)
         ELSE IF e.m = "push" THEN
              IF e.v \in pushed THEN PreEpis(epis, j + 1, orig, trp, push, npops, pushed)
              ELSE IF (e.v # orig[1] /\ e.v # orig[3]) \/ orig[2] = ":instance"
                   THEN PreEpis(epis, j + 1, orig, trp, push, npops, pushed)
              ELSE PreEpis(epis, j + 1, orig, IF e.v = orig[1] THEN Invert(M, trp) ELSE trp, TRUE, npops, pushed \cup {e.v})
         ELSE PreEpis(epis, j + 1, orig, trp, push, npops, pushed)
RECURSIVE Pre(_, _, _, _)
Pre(inp, i, pushed, acc) ==
    IF i > Len(inp.tr) THEN acc
    ELSE LET r == PreEpis(inp.epi[i], 1, inp.tr[i], inp.tr[i], FALSE, 0, pushed)
             item == [kind |-> "t", t |-> r[1], push |-> r[2]]
             pops == [k \in 1..r[3] |-> [kind |-> "pop", t |-> <<>>, push |-> FALSE]]
         IN Pre(inp, i + 1, r[4], acc \o <<item>> \o pops)

(* ---- _find_next with _get_or_establish_site ---- *)
HasNode(nodes, nodemap, v) == v \in DOMAIN nodemap /\ nodemap[v] # 0 /\ nodes[nodemap[v]].var = v
SiteOK(nodemap, v) == v \in DOMAIN nodemap /\ nodemap[v] # 0
\* establish: returns <<nodes, nodemap>>
Establish(nodes, nodemap, v) ==
    IF nodes[nodemap[v]].var = v THEN <<nodes, nodemap>>
    ELSE LET host == nodemap[v]
             es   == nodes[host].edges
             cand == {k \in DOMAIN es : ~es[k].isnode /\ es[k].tgt = v /\ es[k].role # "/"}
             newi == Len(nodes) + 1
             nodes1 == Append(nodes, [var |-> v, edges |-> <<>>])
         IN IF cand = {} THEN <<nodes1, [nodemap EXCEPT ![v] = newi]>>
            ELSE LET k == CHOOSE x \in cand : \A y \in cand : x <= y
                 IN <<[nodes1 EXCEPT ![host].edges[k] = [@ EXCEPT !.tgt = newi, !.isnode = TRUE]],
                      [nodemap EXCEPT ![v] = newi]>>
RECURSIVE Find(_, _, _)
\* scan from the top of the stack (index Len) downwards; returns <<index, var>> (var = NULL if none; index 1 then)
Find(data, nodemap, i) ==
    IF i < 1 THEN <<1, NULL>>
    ELSE IF data[i].kind = "pop" THEN Find(data, nodemap, i - 1)
    ELSE IF SiteOK(nodemap, data[i].t[1]) THEN <<i, data[i].t[1]>>
    ELSE IF SiteOK(nodemap, data[i].t[3]) THEN <<i, data[i].t[3]>>
    ELSE Find(data, nodemap, i - 1)

(* ---- flatten the heap to a flat tree ---- *)
RECURSIVE Flat(_, _, _)
Flat(nodes, n, d) ==
    LET es == nodes[n].edges
        RECURSIVE Go(_)
        Go(k) == IF k > Len(es) THEN <<>>
                 ELSE IF es[k].isnode
                      THEN <<[d |-> d, role |-> es[k].role, kind |-> "node", val |-> nodes[es[k].tgt].var]>>
                           \o Flat(nodes, es[k].tgt, d + 1) \o Go(k + 1)
                      ELSE <<[d |-> d, role |-> es[k].role, kind |-> "atom", val |-> es[k].tgt]>> \o Go(k + 1)
    IN Go(1)

(* --fair algorithm configure {
  variables
    input \in IF MODE = "corrupt"
              THEN {[tr |-> <<Inst.a, Inst.b>>, epi |-> <<<<>>, po>>, top |-> "a"] : po \in PopOpts}
                   \cup {[tr |-> <<Inst.b, Inst.a>>, epi |-> <<po, <<>>>>, top |-> "a"] : po \in PopOpts}
              ELSE {[tr |-> <<>>, epi |-> <<>>, top |-> "a"]},
    tree = [top |-> "a", br |-> <<>>, meta |-> <<>>],
    phase = "build", nx = 0,
    data = <<>>, nodes = <<>>, nodemap = <<>>, skipped = <<>>,
    status = "run", ret = FALSE, found = <<>>, dcount = 0, improvised = FALSE, rounds = 0;

  procedure cnode(v)
    variables surprising = FALSE, datum = <<>>, role = "", target = "", push = FALSE, me = 0, child = 0;
  {
   c0: me := nodemap[v];
   c1: while (Len(data) > 0) {
         datum := data[Len(data)];
         if (datum.kind = "pop") { data := SubSeq(data, 1, Len(data) - 1); goto c9; }
         else if (datum.t[1] = v) {
            data := SubSeq(data, 1, Len(data) - 1);
            role := datum.t[2]; target := datum.t[3]; push := datum.push; }
         else if (datum.t[3] = v /\ datum.t[2] # ":instance") {
            data := SubSeq(data, 1, Len(data) - 1);
            role := InvertRole(M, datum.t[2]); target := datum.t[1]; push := FALSE; surprising := TRUE; }
         else { surprising := TRUE; goto c9; };
   c2:   if (role = ":instance") {
            if (target # NULL) {
               nodes[me].edges := <<[role |-> "/", tgt |-> target, isnode |-> FALSE]>> \o nodes[me].edges; };
         } else if (push /\ ~(GUARD /\ HasNode(nodes, nodemap, target))) {
            child := Len(nodes) + 1;
            nodes := Append(nodes, [var |-> target, edges |-> <<>>]);
            nodemap[target] := child;
   c2b:     call cnode(target);
   c3:      surprising := surprising /\ ret;
            nodes[me].edges := Append(nodes[me].edges, [role |-> role, tgt |-> child, isnode |-> TRUE]);
         } else {
            if (target \in DOMAIN nodemap /\ nodemap[target] = 0) { nodemap[target] := me; };
            nodes[me].edges := Append(nodes[me].edges, [role |-> role, tgt |-> target, isnode |-> FALSE]);
         };
       };
   c9: ret := surprising;
       return;
  }

  {
   b0: while (phase = "build") {
         if (MODE = "corrupt") {
           either { \* add an extra triple at any position with any markers
              await nx < MAXX;
              with (t \in Extras \ {input.tr[i] : i \in DOMAIN input.tr}; p \in 0..Len(input.tr); pu \in PushOpts; po \in PopOpts) {
                 input.tr := SubSeq(input.tr, 1, p) \o <<t>> \o SubSeq(input.tr, p + 1, Len(input.tr)) ||
                 input.epi := SubSeq(input.epi, 1, p) \o <<pu \o po>> \o SubSeq(input.epi, p + 1, Len(input.epi));
                 nx := nx + 1; }
           } or { await nx >= 1; with (tp \in V) { input.top := tp; phase := "run"; } }
         } else {
           either { await nx < MAXX; with (t2 \in TreeExt(tree)) { tree := t2; nx := nx + 1; } }
           or { await WellFormedTree(tree, M);
                with (g = Interpret(tree, M)) { input := [tr |-> g.tr, epi |-> g.epi, top |-> g.top]; };
                phase := "run"; }
           or { await ~WellFormedTree(tree, M) /\ nx >= MAXX; phase := "skip"; }
         }
       };
   bs: if (phase = "skip") { status := "skipped"; goto m7; };
   m0: nodemap := [x \in VarsOf(input) \cup {input.top} |-> 0];
   m1: nodes := <<[var |-> input.top, edges |-> <<>>]>>;
       nodemap[input.top] := 1;
       data := Reverse(Pre(input, 1, {}, <<>>));
       call cnode(input.top);
   m2: data := StripPops(data);
   m3: while (Len(data) > 0 /\ status = "run") {
         improvised := TRUE;
         found := Find(data, nodemap, Len(data));
         if (found[2] = NULL) { status := "LayoutError"; }
         else {
            skipped := skipped \o SubSeq(data, found[1] + 1, Len(data));
            data := SubSeq(data, 1, found[1]);
            dcount := found[1];
            rounds := rounds + 1;
            with (r = Establish(nodes, nodemap, found[2])) { nodes := r[1]; nodemap := r[2]; };
            call cnode(found[2]);
   m4:      if (Len(data) = dcount /\ ret) {
               skipped := <<data[Len(data)]>> \o skipped;
               data := SubSeq(data, 1, Len(data) - 1);
            } else if (Len(data) >= dcount) { status := "LayoutError"; }
            else { data := skipped \o data; skipped := <<>>; };
   m5:      data := StripPops(data);
         };
       };
   m6: if (status = "run") { if (Len(skipped) > 0) { status := "LayoutError"; } else { status := "ok"; }; };
   m7: skip;
  }
} *)
\* BEGIN TRANSLATION (chksum(pcal) = "7c28162a" /\ chksum(tla) = "f004aaa6")
CONSTANT defaultInitValue
VARIABLES pc, input, tree, phase, nx, data, nodes, nodemap, skipped, status, 
          ret, found, dcount, improvised, rounds, stack, v, surprising, datum, 
          role, target, push, me, child

vars == << pc, input, tree, phase, nx, data, nodes, nodemap, skipped, status, 
           ret, found, dcount, improvised, rounds, stack, v, surprising, 
           datum, role, target, push, me, child >>

Init == (* Global variables *)
        /\ input \in (IF MODE = "corrupt"
                      THEN {[tr |-> <<Inst.a, Inst.b>>, epi |-> <<<<>>, po>>, top |-> "a"] : po \in PopOpts}
                           \cup {[tr |-> <<Inst.b, Inst.a>>, epi |-> <<po, <<>>>>, top |-> "a"] : po \in PopOpts}
                      ELSE {[tr |-> <<>>, epi |-> <<>>, top |-> "a"]})
        /\ tree = [top |-> "a", br |-> <<>>, meta |-> <<>>]
        /\ phase = "build"
        /\ nx = 0
        /\ data = <<>>
        /\ nodes = <<>>
        /\ nodemap = <<>>
        /\ skipped = <<>>
        /\ status = "run"
        /\ ret = FALSE
        /\ found = <<>>
        /\ dcount = 0
        /\ improvised = FALSE
        /\ rounds = 0
        (* Procedure cnode *)
        /\ v = defaultInitValue
        /\ surprising = FALSE
        /\ datum = <<>>
        /\ role = ""
        /\ target = ""
        /\ push = FALSE
        /\ me = 0
        /\ child = 0
        /\ stack = << >>
        /\ pc = "b0"

c0 == /\ pc = "c0"
      /\ me' = nodemap[v]
      /\ pc' = "c1"
      /\ UNCHANGED << input, tree, phase, nx, data, nodes, nodemap, skipped, 
                      status, ret, found, dcount, improvised, rounds, stack, v, 
                      surprising, datum, role, target, push, child >>

c1 == /\ pc = "c1"
      /\ IF Len(data) > 0
            THEN /\ datum' = data[Len(data)]
                 /\ IF datum'.kind = "pop"
                       THEN /\ data' = SubSeq(data, 1, Len(data) - 1)
                            /\ pc' = "c9"
                            /\ UNCHANGED << surprising, role, target, push >>
                       ELSE /\ IF datum'.t[1] = v
                                  THEN /\ data' = SubSeq(data, 1, Len(data) - 1)
                                       /\ role' = datum'.t[2]
                                       /\ target' = datum'.t[3]
                                       /\ push' = datum'.push
                                       /\ pc' = "c2"
                                       /\ UNCHANGED surprising
                                  ELSE /\ IF datum'.t[3] = v /\ datum'.t[2] # ":instance"
                                             THEN /\ data' = SubSeq(data, 1, Len(data) - 1)
                                                  /\ role' = InvertRole(M, datum'.t[2])
                                                  /\ target' = datum'.t[1]
                                                  /\ push' = FALSE
                                                  /\ surprising' = TRUE
                                                  /\ pc' = "c2"
                                             ELSE /\ surprising' = TRUE
                                                  /\ pc' = "c9"
                                                  /\ UNCHANGED << data, role, 
                                                                  target, push >>
            ELSE /\ pc' = "c9"
                 /\ UNCHANGED << data, surprising, datum, role, target, push >>
      /\ UNCHANGED << input, tree, phase, nx, nodes, nodemap, skipped, status, 
                      ret, found, dcount, improvised, rounds, stack, v, me, 
                      child >>

c2 == /\ pc = "c2"
      /\ IF role = ":instance"
            THEN /\ IF target # NULL
                       THEN /\ nodes' = [nodes EXCEPT ![me].edges = <<[role |-> "/", tgt |-> target, isnode |-> FALSE]>> \o nodes[me].edges]
                       ELSE /\ TRUE
                            /\ nodes' = nodes
                 /\ pc' = "c1"
                 /\ UNCHANGED << nodemap, child >>
            ELSE /\ IF push /\ ~(GUARD /\ HasNode(nodes, nodemap, target))
                       THEN /\ child' = Len(nodes) + 1
                            /\ nodes' = Append(nodes, [var |-> target, edges |-> <<>>])
                            /\ nodemap' = [nodemap EXCEPT ![target] = child']
                            /\ pc' = "c2b"
                       ELSE /\ IF target \in DOMAIN nodemap /\ nodemap[target] = 0
                                  THEN /\ nodemap' = [nodemap EXCEPT ![target] = me]
                                  ELSE /\ TRUE
                                       /\ UNCHANGED nodemap
                            /\ nodes' = [nodes EXCEPT ![me].edges = Append(nodes[me].edges, [role |-> role, tgt |-> target, isnode |-> FALSE])]
                            /\ pc' = "c1"
                            /\ child' = child
      /\ UNCHANGED << input, tree, phase, nx, data, skipped, status, ret, 
                      found, dcount, improvised, rounds, stack, v, surprising, 
                      datum, role, target, push, me >>

c2b == /\ pc = "c2b"
       /\ /\ stack' = << [ procedure |->  "cnode",
                           pc        |->  "c3",
                           surprising |->  surprising,
                           datum     |->  datum,
                           role      |->  role,
                           target    |->  target,
                           push      |->  push,
                           me        |->  me,
                           child     |->  child,
                           v         |->  v ] >>
                       \o stack
          /\ v' = target
       /\ surprising' = FALSE
       /\ datum' = <<>>
       /\ role' = ""
       /\ target' = ""
       /\ push' = FALSE
       /\ me' = 0
       /\ child' = 0
       /\ pc' = "c0"
       /\ UNCHANGED << input, tree, phase, nx, data, nodes, nodemap, skipped, 
                       status, ret, found, dcount, improvised, rounds >>

c3 == /\ pc = "c3"
      /\ surprising' = (surprising /\ ret)
      /\ nodes' = [nodes EXCEPT ![me].edges = Append(nodes[me].edges, [role |-> role, tgt |-> child, isnode |-> TRUE])]
      /\ pc' = "c1"
      /\ UNCHANGED << input, tree, phase, nx, data, nodemap, skipped, status, 
                      ret, found, dcount, improvised, rounds, stack, v, datum, 
                      role, target, push, me, child >>

c9 == /\ pc = "c9"
      /\ ret' = surprising
      /\ pc' = Head(stack).pc
      /\ surprising' = Head(stack).surprising
      /\ datum' = Head(stack).datum
      /\ role' = Head(stack).role
      /\ target' = Head(stack).target
      /\ push' = Head(stack).push
      /\ me' = Head(stack).me
      /\ child' = Head(stack).child
      /\ v' = Head(stack).v
      /\ stack' = Tail(stack)
      /\ UNCHANGED << input, tree, phase, nx, data, nodes, nodemap, skipped, 
                      status, found, dcount, improvised, rounds >>

cnode == c0 \/ c1 \/ c2 \/ c2b \/ c3 \/ c9

b0 == /\ pc = "b0"
      /\ IF phase = "build"
            THEN /\ IF MODE = "corrupt"
                       THEN /\ \/ /\ nx < MAXX
                                  /\ \E t \in Extras \ {input.tr[i] : i \in DOMAIN input.tr}:
                                       \E p \in 0..Len(input.tr):
                                         \E pu \in PushOpts:
                                           \E po \in PopOpts:
                                             /\ input' = [input EXCEPT !.tr = SubSeq(input.tr, 1, p) \o <<t>> \o SubSeq(input.tr, p + 1, Len(input.tr)),
                                                                       !.epi = SubSeq(input.epi, 1, p) \o <<pu \o po>> \o SubSeq(input.epi, p + 1, Len(input.epi))]
                                             /\ nx' = nx + 1
                                  /\ phase' = phase
                               \/ /\ nx >= 1
                                  /\ \E tp \in V:
                                       /\ input' = [input EXCEPT !.top = tp]
                                       /\ phase' = "run"
                                  /\ nx' = nx
                            /\ tree' = tree
                       ELSE /\ \/ /\ nx < MAXX
                                  /\ \E t2 \in TreeExt(tree):
                                       /\ tree' = t2
                                       /\ nx' = nx + 1
                                  /\ UNCHANGED <<input, phase>>
                               \/ /\ WellFormedTree(tree, M)
                                  /\ LET g == Interpret(tree, M) IN
                                       input' = [tr |-> g.tr, epi |-> g.epi, top |-> g.top]
                                  /\ phase' = "run"
                                  /\ UNCHANGED <<tree, nx>>
                               \/ /\ ~WellFormedTree(tree, M) /\ nx >= MAXX
                                  /\ phase' = "skip"
                                  /\ UNCHANGED <<input, tree, nx>>
                 /\ pc' = "b0"
            ELSE /\ pc' = "bs"
                 /\ UNCHANGED << input, tree, phase, nx >>
      /\ UNCHANGED << data, nodes, nodemap, skipped, status, ret, found, 
                      dcount, improvised, rounds, stack, v, surprising, datum, 
                      role, target, push, me, child >>

bs == /\ pc = "bs"
      /\ IF phase = "skip"
            THEN /\ status' = "skipped"
                 /\ pc' = "m7"
            ELSE /\ pc' = "m0"
                 /\ UNCHANGED status
      /\ UNCHANGED << input, tree, phase, nx, data, nodes, nodemap, skipped, 
                      ret, found, dcount, improvised, rounds, stack, v, 
                      surprising, datum, role, target, push, me, child >>

m0 == /\ pc = "m0"
      /\ nodemap' = [x \in VarsOf(input) \cup {input.top} |-> 0]
      /\ pc' = "m1"
      /\ UNCHANGED << input, tree, phase, nx, data, nodes, skipped, status, 
                      ret, found, dcount, improvised, rounds, stack, v, 
                      surprising, datum, role, target, push, me, child >>

m1 == /\ pc = "m1"
      /\ nodes' = <<[var |-> input.top, edges |-> <<>>]>>
      /\ nodemap' = [nodemap EXCEPT ![input.top] = 1]
      /\ data' = Reverse(Pre(input, 1, {}, <<>>))
      /\ /\ stack' = << [ procedure |->  "cnode",
                          pc        |->  "m2",
                          surprising |->  surprising,
                          datum     |->  datum,
                          role      |->  role,
                          target    |->  target,
                          push      |->  push,
                          me        |->  me,
                          child     |->  child,
                          v         |->  v ] >>
                      \o stack
         /\ v' = input.top
      /\ surprising' = FALSE
      /\ datum' = <<>>
      /\ role' = ""
      /\ target' = ""
      /\ push' = FALSE
      /\ me' = 0
      /\ child' = 0
      /\ pc' = "c0"
      /\ UNCHANGED << input, tree, phase, nx, skipped, status, ret, found, 
                      dcount, improvised, rounds >>

m2 == /\ pc = "m2"
      /\ data' = StripPops(data)
      /\ pc' = "m3"
      /\ UNCHANGED << input, tree, phase, nx, nodes, nodemap, skipped, status, 
                      ret, found, dcount, improvised, rounds, stack, v, 
                      surprising, datum, role, target, push, me, child >>

m3 == /\ pc = "m3"
      /\ IF Len(data) > 0 /\ status = "run"
            THEN /\ improvised' = TRUE
                 /\ found' = Find(data, nodemap, Len(data))
                 /\ IF found'[2] = NULL
                       THEN /\ status' = "LayoutError"
                            /\ pc' = "m3"
                            /\ UNCHANGED << data, nodes, nodemap, skipped, 
                                            dcount, rounds, stack, v, 
                                            surprising, datum, role, target, 
                                            push, me, child >>
                       ELSE /\ skipped' = skipped \o SubSeq(data, found'[1] + 1, Len(data))
                            /\ data' = SubSeq(data, 1, found'[1])
                            /\ dcount' = found'[1]
                            /\ rounds' = rounds + 1
                            /\ LET r == Establish(nodes, nodemap, found'[2]) IN
                                 /\ nodes' = r[1]
                                 /\ nodemap' = r[2]
                            /\ /\ stack' = << [ procedure |->  "cnode",
                                                pc        |->  "m4",
                                                surprising |->  surprising,
                                                datum     |->  datum,
                                                role      |->  role,
                                                target    |->  target,
                                                push      |->  push,
                                                me        |->  me,
                                                child     |->  child,
                                                v         |->  v ] >>
                                            \o stack
                               /\ v' = found'[2]
                            /\ surprising' = FALSE
                            /\ datum' = <<>>
                            /\ role' = ""
                            /\ target' = ""
                            /\ push' = FALSE
                            /\ me' = 0
                            /\ child' = 0
                            /\ pc' = "c0"
                            /\ UNCHANGED status
            ELSE /\ pc' = "m6"
                 /\ UNCHANGED << data, nodes, nodemap, skipped, status, found, 
                                 dcount, improvised, rounds, stack, v, 
                                 surprising, datum, role, target, push, me, 
                                 child >>
      /\ UNCHANGED << input, tree, phase, nx, ret >>

m4 == /\ pc = "m4"
      /\ IF Len(data) = dcount /\ ret
            THEN /\ skipped' = <<data[Len(data)]>> \o skipped
                 /\ data' = SubSeq(data, 1, Len(data) - 1)
                 /\ UNCHANGED status
            ELSE /\ IF Len(data) >= dcount
                       THEN /\ status' = "LayoutError"
                            /\ UNCHANGED << data, skipped >>
                       ELSE /\ data' = skipped \o data
                            /\ skipped' = <<>>
                            /\ UNCHANGED status
      /\ pc' = "m5"
      /\ UNCHANGED << input, tree, phase, nx, nodes, nodemap, ret, found, 
                      dcount, improvised, rounds, stack, v, surprising, datum, 
                      role, target, push, me, child >>

m5 == /\ pc = "m5"
      /\ data' = StripPops(data)
      /\ pc' = "m3"
      /\ UNCHANGED << input, tree, phase, nx, nodes, nodemap, skipped, status, 
                      ret, found, dcount, improvised, rounds, stack, v, 
                      surprising, datum, role, target, push, me, child >>

m6 == /\ pc = "m6"
      /\ IF status = "run"
            THEN /\ IF Len(skipped) > 0
                       THEN /\ status' = "LayoutError"
                       ELSE /\ status' = "ok"
            ELSE /\ TRUE
                 /\ UNCHANGED status
      /\ pc' = "m7"
      /\ UNCHANGED << input, tree, phase, nx, data, nodes, nodemap, skipped, 
                      ret, found, dcount, improvised, rounds, stack, v, 
                      surprising, datum, role, target, push, me, child >>

m7 == /\ pc = "m7"
      /\ TRUE
      /\ pc' = "Done"
      /\ UNCHANGED << input, tree, phase, nx, data, nodes, nodemap, skipped, 
                      status, ret, found, dcount, improvised, rounds, stack, v, 
                      surprising, datum, role, target, push, me, child >>

(* Allow infinite stuttering to prevent deadlock on termination. *)
Terminating == pc = "Done" /\ UNCHANGED vars

Next == cnode \/ b0 \/ bs \/ m0 \/ m1 \/ m2 \/ m3 \/ m4 \/ m5 \/ m6 \/ m7
           \/ Terminating

Spec == /\ Init /\ [][Next]_vars
        /\ WF_vars(Next)

Termination == <>(pc = "Done")

\* END TRANSLATION 
 

\* ---- what TLC checks (stated over the translation's variables) ----
SourcesG == {input.tr[i][1] : i \in DOMAIN input.tr}
G0 == [top |-> input.top, tr |-> input.tr]
Result == [top |-> nodes[1].var, br |-> Flat(nodes, 1, 0), meta |-> <<>>]
Finished == pc = "Done"
\* C03 / C06 for the algorithm: failure exactly on graphs not connected from the top, otherwise same content and top
PostOK == (Finished /\ MODE = "corrupt") =>
            IF MustFail(G0, input.top) THEN status = "LayoutError"
            ELSE status = "ok" /\ SameContent(G0, Interpret(Result, M), M) /\ Interpret(Result, M).top = input.top
\* C02 for the marker protocol: on the reading of a well-formed tree the single pass suffices and gives back the normal form
PostRT == (Finished /\ MODE = "roundtrip" /\ phase # "skip") => status = "ok" /\ ~improvised /\ Result = Norm(tree)
\* every triple of the input is in exactly one place while the machine runs
Placed == LET RECURSIVE Cnt(_) Cnt(n) == IF n > Len(nodes) THEN 0 ELSE Len(nodes[n].edges) + Cnt(n + 1) IN Cnt(1)
InData(d) == Cardinality({i \in DOMAIN d : d[i].kind = "t"})
\* an improvisation round never lengthens the work list (checked when a round ends)
RoundsBounded == rounds <= Len(input.tr) * (Len(input.tr) + 1) + 1
=============================================================================
