SPECIFICATION Spec
CONSTANT MaxBr = 3
CONSTANT MaxDepth = 3
CONSTANT Small = TRUE
INVARIANT Generated
INVARIANT RoundTrip
INVARIANT SameTokens
INVARIANT FixedPoint
INVARIANT OnlyWhitespaceDiffers
CHECK_DEADLOCK FALSE
