------------------------------- MODULE Graph -------------------------------
(***************************************************************************)
(* The Graph object (docs/api/penman.graph.rst) as a history machine: a     *)
(* pool of graph objects under construction, explicit-top assignment, union *)
(* and difference (new-object and in-place forms).  Queries are state       *)
(* functions.                                                               *)
(*                                                                          *)
(* A graph is [tr, xtop, em]: the triple list, the explicit top (NULL if    *)
(* none) and the marker map as a function from triples to marker lists.     *)
(* Apply(pool, act) is the transition function shared by the model-checking *)
(* instance (MC_Graph) and the trace judge (J_Graph).                       *)
(***************************************************************************)
EXTENDS Interpret

(* ---- queries ---- *)
GTop(g) == IF g.xtop # NULL THEN g.xtop ELSE IF Len(g.tr) > 0 THEN g.tr[1][1] ELSE NULL
GVars(g) == {g.tr[i][1] : i \in DOMAIN g.tr} \cup (IF g.xtop # NULL THEN {g.xtop} ELSE {})
Match(t, f) == (f[1] = NULL \/ f[1] = t[1]) /\ (f[2] = NULL \/ f[2] = t[2]) /\ (f[3] = NULL \/ f[3] = t[3])
NoFilter == <<NULL, NULL, NULL>>
Instances(g) == SelectSeq(g.tr, LAMBDA t : t[2] = ConceptRole)
Edges(g, f) == SelectSeq(g.tr, LAMBDA t : Match(t, f) /\ t[2] # ConceptRole /\ t[3] \in GVars(g))
Attributes(g, f) == SelectSeq(g.tr, LAMBDA t : Match(t, f) /\ t[2] # ConceptRole /\ t[3] \notin GVars(g))
InDegree(g, v) == Cardinality({i \in DOMAIN g.tr : g.tr[i][2] # ConceptRole /\ g.tr[i][3] = v /\ v \in GVars(g)})
                  + (IF GTop(g) = v /\ v # NULL THEN 1 ELSE 0)
\* reported: variables entered at least twice, with the count beyond the first
Reentrancies(g) == {<<v, InDegree(g, v) - 1>> : v \in {w \in GVars(g) \cup {GTop(g)} : InDegree(g, w) >= 2}}
EpiAt(g, t) == IF t \in DOMAIN g.em THEN g.em[t] ELSE <<>>
EpiViewG(g) == [i \in DOMAIN g.tr |-> EpiAt(g, g.tr[i])]
\* construction gives every role its leading colon; the marker map is keyed by the triples as given (a key written without the
\* colon therefore never matches a triple of the graph); for a repeated triple the last list wins (dict construction)
ColonRole(t) == <<t[1], EnsureColon(t[2]), t[3]>>
MkGraph(tr, xtop, epi) ==
    [tr |-> [i \in DOMAIN tr |-> ColonRole(tr[i])], xtop |-> xtop,
     em |-> [t \in Range(tr) |-> epi[CHOOSE i \in DOMAIN tr : tr[i] = t /\ \A j \in (i + 1)..Len(tr) : tr[j] # t]]]

(* ---- operations ---- *)
InSeq(t, s) == \E i \in DOMAIN s : s[i] = t
Restrict(f, S) == [x \in (DOMAIN f) \cap S |-> f[x]]
Override(f, h) == [x \in (DOMAIN f) \cup (DOMAIN h) |-> IF x \in DOMAIN h THEN h[x] ELSE f[x]]
\* union: triples of b that a does not have are appended in b's order and bring b's markers
UnionG(a, b) == LET added == SelectSeq(b.tr, LAMBDA t : ~InSeq(t, a.tr)) IN
                [tr |-> a.tr \o added, xtop |-> a.xtop, em |-> Override(a.em, b.em)]
\* difference: triples of b are removed with their markers; an explicit top that no longer occurs is dropped
DiffG(a, b) == LET rest == SelectSeq(a.tr, LAMBDA t : ~InSeq(t, b.tr))
                   occurs == {rest[i][1] : i \in DOMAIN rest} \cup {rest[i][3] : i \in DOMAIN rest}
               IN [tr |-> rest, xtop |-> IF a.xtop \in occurs THEN a.xtop ELSE NULL,
                   em |-> Restrict(a.em, (DOMAIN a.em) \ Range(b.tr))]
\* act: [op, i, j, k, top, g | tr]; result: [pool, res]
Apply(pool, act) ==
    CASE act.op = "new" -> [pool |-> Append(pool, act.g), res |-> "ok"]
      [] act.op = "settop" ->
            IF act.top # NULL /\ act.top \notin GVars(pool[act.i]) THEN [pool |-> pool, res |-> "GraphError"]
            ELSE [pool |-> [pool EXCEPT ![act.i].xtop = act.top], res |-> "ok"]
      [] act.op = "or" -> [pool |-> Append(pool, UnionG(pool[act.i], pool[act.j])), res |-> "ok"]
      [] act.op = "ior" -> [pool |-> [pool EXCEPT ![act.i] = UnionG(pool[act.i], pool[act.j])], res |-> "ok"]
      [] act.op = "sub" -> [pool |-> Append(pool, DiffG(pool[act.i], pool[act.j])), res |-> "ok"]
      [] act.op = "isub" -> [pool |-> [pool EXCEPT ![act.i] = DiffG(pool[act.i], pool[act.j])], res |-> "ok"]
      \* the triple list is a public attribute and may be edited in place: position k is overwritten (or the triple is
      \* appended when k is past the end); the editor removes the markers of a triple that no longer occurs; every later
      \* query reads the list as it then stands
      [] act.op = "edit" ->
            LET g == pool[act.i]  t == act.tr[1]
                ntr == IF act.k <= Len(g.tr) THEN [g.tr EXCEPT ![act.k] = t] ELSE Append(g.tr, t)
                gone == IF act.k <= Len(g.tr) /\ ~InSeq(g.tr[act.k], ntr) THEN {g.tr[act.k]} ELSE {}
            IN [pool |-> [pool EXCEPT ![act.i] = [tr |-> ntr, xtop |-> g.xtop, em |-> Restrict(g.em, (DOMAIN g.em) \ gone)]], res |-> "ok"]
InPlace(op) == op \in {"settop", "ior", "isub", "edit"}

(* ---- the clauses of property C15 as predicates over one graph ---- *)
RECURSIVE SubSeqOf(_, _, _, _)
SubSeqOf(s, i, t, j) == IF i > Len(s) THEN TRUE ELSE IF j > Len(t) THEN FALSE
                        ELSE IF s[i] = t[j] THEN SubSeqOf(s, i + 1, t, j + 1) ELSE SubSeqOf(s, i, t, j + 1)
IsSubList(s, t) == SubSeqOf(s, 1, t, 1)
Partition(g) ==
    LET I == Instances(g)  E == Edges(g, NoFilter)  A == Attributes(g, NoFilter) IN
    /\ Len(I) + Len(E) + Len(A) = Len(g.tr)
    /\ \A i \in DOMAIN g.tr :
         LET t == g.tr[i]
             n == (IF t[2] = ConceptRole THEN 1 ELSE 0)
                  + (IF t[2] # ConceptRole /\ t[3] \in GVars(g) THEN 1 ELSE 0)
                  + (IF t[2] # ConceptRole /\ t[3] \notin GVars(g) THEN 1 ELSE 0)
         IN n = 1
    /\ IsSubList(I, g.tr) /\ IsSubList(E, g.tr) /\ IsSubList(A, g.tr)
ImplicitTop(g) == g.xtop = NULL => GTop(g) = (IF Len(g.tr) > 0 THEN g.tr[1][1] ELSE NULL)
=============================================================================
