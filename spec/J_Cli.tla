------------------------------- MODULE J_Cli -------------------------------
(* Trace judge for the command-line tool: the tool's bytes and exit status      *)
(* against the library pipeline executed from the specification's plan (C20),   *)
(* content invariance under formatting options, the normal-form (fixed point)   *)
(* clause, content preservation without normalisation options, and the exit     *)
(* status / error metadata of --check over several inputs (C16).                *)
EXTENDS Interpret, IOUtils
CONSTANT FullSpace
CL == INSTANCE Cli
Traces == ndJsonDeserialize(IOEnv.TRACE_FILE)
VARIABLES tid, step, verdict
vars == <<tid, step, verdict>>
T == Traces[tid]
MName == IF T.model = "file" THEN "miniamr" ELSE T.model
M == Models[MName]
Acc == <<"ACCEPT", "">>
RECURSIVE FirstFail(_, _)
FirstFail(cs, i) == IF i > Len(cs) THEN Acc ELSE IF cs[i][2] THEN FirstFail(cs, i + 1) ELSE <<"REJECT", cs[i][1]>>

\* F17: both --reify-edges and --reify-attributes, and an input graph has an inverted attribute whose deinverted role is reifiable
HasArg(a) == \E i \in DOMAIN T.plan.args : T.plan.args[i] = a
F17Sig == HasArg("--reify-edges") /\ HasArg("--reify-attributes") /\
          \E gi \in DOMAIN T.in_graphs : LET g == T.in_graphs[gi]  vs == {g.tr[i][1] : i \in DOMAIN g.tr} IN
             \E i \in DOMAIN g.tr : g.tr[i][2] # ConceptRole /\ g.tr[i][3] \notin vs /\ IsInverted(M, g.tr[i][2]) /\ Reifiable(M, InvertRole(M, g.tr[i][2]))
\* F19: --check records the offending triples of the graph before --rearrange reorders the branches and before --make-variables
\* renames the variables, so a second run numbers / names them differently (needs two offending triples for the order, one for the names)
F19Sig == HasArg("--check") /\ ((HasArg("--rearrange") /\ T.max_errors >= 2) \/ (HasArg("--make-variables") /\ T.max_errors >= 1))
\* F23: --check together with --reify-attributes on an inverted attribute: the reified edge keeps the inverted role inside the
\* graph, --check reports it as written, and the second run reads it deinverted (only the error-N metadata differ)
F23Sig == HasArg("--check") /\ HasArg("--reify-attributes") /\
          \E gi \in DOMAIN T.in_graphs : LET g == T.in_graphs[gi]  vs == {g.tr[i][1] : i \in DOMAIN g.tr} IN
             \E i \in DOMAIN g.tr : g.tr[i][2] # ConceptRole /\ g.tr[i][3] \notin vs /\ IsInverted(M, g.tr[i][2])
\* F24: --canonicalize-roles with --reify-edges: an edge with a role r that is not reifiable, where the model normalises r-of to
\* a reifiable role (AMR: :domain-of -> :mod); if the layout writes that edge inverted, the next run normalises and reifies it
F24Sig == HasArg("--canonicalize-roles") /\ HasArg("--reify-edges") /\
          \E gi \in DOMAIN T.in_graphs : LET g == T.in_graphs[gi]  vs == {g.tr[i][1] : i \in DOMAIN g.tr} IN
             \E i \in DOMAIN g.tr : g.tr[i][2] # ConceptRole /\ g.tr[i][3] \in vs /\ ~Reifiable(M, g.tr[i][2])
                                    /\ NormOf(M, g.tr[i][2] \o "-of") # g.tr[i][2] \o "-of" /\ Reifiable(M, NormOf(M, g.tr[i][2] \o "-of"))
\* F26: --reify-edges, --dereify-edges and --reify-attributes together on a relation without a target whose role shares its
\* reification concept with another, mirrored role listed first (AMR: :superset, whose include-91 is read back as :subset): the
\* reified node is not collapsible while one of its arguments is missing; --reify-attributes then makes a node of the missing
\* target, and the second run collapses what the first run left
Mirrored(m, r) == Reifiable(m, r) /\ LET c == ReifOf(m, r)[1]
                                         k == CHOOSE i \in DOMAIN m.reifs : m.reifs[i][2] = c /\ \A j \in 1..(i - 1) : m.reifs[j][2] # c
                                     IN m.reifs[k][1] # r
F26Sig == HasArg("--reify-edges") /\ HasArg("--dereify-edges") /\ HasArg("--reify-attributes") /\
          \E gi \in DOMAIN T.in_graphs : LET g == T.in_graphs[gi] IN
             \E i \in DOMAIN g.tr : g.tr[i][2] # ConceptRole /\ g.tr[i][3] = NULL /\ Mirrored(M, g.tr[i][2])
\* input graphs are well-formed and survive the pipeline conventions (no over-inverted roles etc.): decided per graph
\* (a decoded edge that still carries an inverted role was written over-inverted, e.g. :consist-of-of under a model that does not
\* define :consist-of: outside "well-formed", O12 - decided here on the decoded input graphs, whatever the generator intended)
OverInverted(g) == LET vs == {g.tr[i][1] : i \in DOMAIN g.tr} IN
                   \E i \in DOMAIN g.tr : g.tr[i][2] # ConceptRole /\ IsInverted(M, g.tr[i][2])
                                          /\ (g.tr[i][3] \in vs \/ IsInverted(M, InvertRole(M, g.tr[i][2])))
Repeated(g) == \E i, j \in DOMAIN g.tr : i < j /\ g.tr[i] = g.tr[j]
\* C10's proviso, which the relabelling stage inherits: no constant of the input is spelled like a name --make-variables generated
Captured == HasArg("--make-variables") /\ Len(T.out_graphs) = Len(T.in_graphs) /\
            \E gi \in DOMAIN T.in_graphs : LET g == T.in_graphs[gi]  vs == {g.tr[i][1] : i \in DOMAIN g.tr}
                                                 nv == {T.out_graphs[gi].tr[i][1] : i \in DOMAIN T.out_graphs[gi].tr} IN
               \E i \in DOMAIN g.tr : g.tr[i][2] # ConceptRole /\ g.tr[i][3] \notin vs /\ g.tr[i][3] \in nv
InputOK == T.input_wellformed /\ \A gi \in DOMAIN T.in_graphs : ~OverInverted(T.in_graphs[gi]) /\ ~Repeated(T.in_graphs[gi])

(* ---------------- kind = "cli" (C20) ---------------- *)
CliV ==
    IF T.tool.exc # T.lib.exc THEN <<"REJECT", "tool and pipeline fail differently: " \o T.tool.exc \o " / " \o T.lib.exc>>
    ELSE IF T.tool.exc # "" THEN <<"NA", "pipeline raises on this input (" \o T.tool.exc \o ")">>
    ELSE LET v == FirstFail(<<
            <<"exit-status-equals-pipeline", T.tool.exit = T.lib.exit>>,
            <<"one-output-graph-per-input-graph", T.plan.triples \/ Len(T.out_graphs) = Len(T.in_graphs)>>,
            \* (with --check the tool adds error-N metadata, which is no stage of the documented pipeline: the texts are compared
            \*  without those lines, and the offending triples they name per graph as sets - C16 fixes what must be recorded)
            <<"bytes-equal-library-pipeline", T.plan.random \/ (IF T.plan.check THEN T.tool.noerr = T.lib.noerr ELSE T.tool.out = T.lib.out)>>,
            <<"check-records-the-same-offending-triples", T.plan.random \/ ~T.plan.check \/ T.tool.errctx = T.lib.errctx>>,
            <<"formatting-options-never-change-content", T.plan.random \/ T.plan.triples \/ T.out_graphs = T.base_graphs>>,
            <<"no-normalisation-preserves-graphs", (T.plan.plain /\ InputOK) => T.out_graphs = T.in_graphs>> >>, 1)
         IN IF v # Acc THEN v
            \* the fixed-point clause speaks about one input stream (outputs of several inputs are not separated by a blank line, O7)
            ELSE IF T.plan.idempotent /\ ~T.plan.triples /\ InputOK /\ ~Captured /\ T.ninputs = 1 /\ T.tool2.out # T.tool.out
                 THEN (IF F17Sig THEN <<"KNOWN", "F17 reify-edges + reify-attributes on an inverted attribute">>
                       ELSE IF F19Sig THEN <<"KNOWN", "F19 error-N metadata describe the graph before rearrange / make-variables">>
                       ELSE IF F23Sig THEN <<"KNOWN", "F23 check + reify-attributes on an inverted attribute">>
                       ELSE IF F24Sig THEN <<"KNOWN", "F24 canonicalize-roles + reify-edges on an edge whose inverted role normalises to a reifiable one">>
                       ELSE IF F26Sig THEN <<"KNOWN", "F26 reify-edges + dereify-edges + reify-attributes on a mirrored relation without a target">>
                       ELSE <<"REJECT", "output-is-a-fixed-point">>)
            ELSE Acc

(* ---------------- kind = "check" (C16: exit status and error metadata over several inputs) ---------------- *)
\* T: inputs: sequence of inputs, each a sequence of [bad |-> BOOLEAN, nerr |-> number of offending triples / general errors],
\*    (bad, contexts: per offending context the acceptable metadata values "(s r t) message"),
\*    tool: exit, outs: per input per graph the error-N metadata values found in the tool's output
AnyBad == \E f \in DOMAIN T.inputs : \E g \in DOMAIN T.inputs[f] : T.inputs[f][g].bad
ChkShape == Len(T.outs) = Len(T.inputs) /\ \A f \in DOMAIN T.inputs : Len(T.outs[f]) = Len(T.inputs[f])
\* with --quiet the exit status is the only report: it must be the same, and nothing is written
QuietV == FirstFail(<<
            <<"no-exception", T.tool.exc = "">>,
            <<"exit-nonzero-iff-some-graph-has-an-error", (T.tool.exit # 0) <=> AnyBad>>,
            <<"exit-status-is-1", AnyBad => T.tool.exit = 1>>,
            <<"quiet-writes-nothing", T.tool.out = "">> >>, 1)
ChkV == IF T.quiet THEN QuietV ELSE FirstFail(<<
            <<"no-exception", T.tool.exc = "">>,
            <<"exit-nonzero-iff-some-graph-has-an-error", (T.tool.exit # 0) <=> AnyBad>>,
            <<"exit-status-is-1", AnyBad => T.tool.exit = 1>>,
            <<"one-output-per-graph", ChkShape>>,
            <<"every-offending-triple-recorded", ChkShape =>
                \A f \in DOMAIN T.inputs : \A g \in DOMAIN T.inputs[f] :
                    LET want == T.inputs[f][g].contexts  got == T.outs[f][g] IN
                    /\ Len(got) = Len(want)
                    /\ \A k \in DOMAIN want : \E j \in DOMAIN got : \E q \in DOMAIN want[k] : got[j] = want[k][q]>>,
            <<"compliant-graphs-get-no-error-metadata", ChkShape =>
                \A f \in DOMAIN T.inputs : \A g \in DOMAIN T.inputs[f] : ~T.inputs[f][g].bad => T.outs[f][g] = <<>>>> >>, 1)

V == IF T.kind = "cli" THEN CliV ELSE ChkV
Init == tid \in 1..Len(Traces) /\ step = 0 /\ verdict = <<"pending", "">>
Judge == step = 0 /\ step' = 1 /\ verdict' = V /\ UNCHANGED tid
Spec == Init /\ [][Judge]_vars
Out == step = 1 => PrintT("V|" \o ToString(tid) \o "|" \o verdict[1] \o "|" \o verdict[2])
=============================================================================
