SPECIFICATION Spec
CONSTANT MaxBr = 3
CONSTANT MaxP = 2
INVARIANT SameTop
INVARIANT StaysWellFormed
INVARIANT StaysConnected
INVARIANT MarkersAligned
INVARIANT InverseLaw
INVARIANT NeverCollapsesTopOrShared
PROPERTY AttrClauses
PROPERTY BranchClauses
CHECK_DEADLOCK FALSE
