SPECIFICATION Spec
CONSTANT MaxT = 2
INVARIANT Safe
INVARIANT RoundTrip
INVARIANT VariantsAgree
INVARIANT RolesColon
CHECK_DEADLOCK FALSE
