---- MODULE Dbg ----
EXTENDS Formatter, IOUtils
Traces == ndJsonDeserialize(IOEnv.TRACE_FILE)
T == Traces[1]
VARIABLE x
P == Parse(Lex(T.text, FALSE))
Init == x = 0
Next == x = 0 /\ x' = 1 /\ PrintT(<<"ok", P.ok>>)
  /\ (P.ok => PrintT(<<"meta", P.tree.meta, T.tree.meta, "top", P.tree.top = T.tree.top, "len", Len(P.tree.br), Len(T.tree.br)>>))
  /\ (P.ok => PrintT({<<i, P.tree.br[i], T.tree.br[i]>> : i \in {j \in 1..Len(T.tree.br) : j <= Len(P.tree.br) /\ P.tree.br[j] # T.tree.br[j]}}))
====
