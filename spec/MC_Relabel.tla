------------------------------- MODULE MC_Relabel -------------------------------
(* The naming loop of reset_variables as a machine: nodes are visited in depth-   *)
(* first order; TryName tests one candidate; AcceptName records it.  Every format  *)
(* of up to MaxP pieces, every sequence of up to MaxN node prefixes.               *)
(* Progress is the pigeonhole measure of the loop: the counter never exceeds the   *)
(* number of names in use.  It is violated exactly by formats without an index     *)
(* field on nodes that format alike (finding F15), which is why the instance       *)
(* restricts Progress to formats with an index field and states the other case     *)
(* separately (StuckWithoutIndex).                                                 *)
EXTENDS Relabel
CONSTANTS MaxP, MaxN
VARIABLES fmt, pres, k, i, used, names, pc
PieceSet == {"{prefix}", "{i}", "{j}", "v"}
PrefixSet == {"a", "b", "_"}
vars == <<fmt, pres, k, i, used, names, pc>>
Init == /\ fmt \in UNION {[1..n -> PieceSet] : n \in 1..MaxP}
        /\ pres \in UNION {[1..n -> PrefixSet] : n \in 1..MaxN}
        /\ k = 1 /\ i = 0 /\ used = {} /\ names = <<>> /\ pc = "try"
Cand == FmtPieces(fmt, 1, pres[k], i)
TryName == pc = "try" /\ k <= Len(pres) /\ Cand \in used /\ i <= MaxN + 1 /\ i' = i + 1 /\ UNCHANGED <<fmt, pres, k, used, names, pc>>
AcceptName == pc = "try" /\ k <= Len(pres) /\ Cand \notin used
              /\ used' = used \cup {Cand} /\ names' = Append(names, Cand) /\ k' = k + 1 /\ i' = 0 /\ UNCHANGED <<fmt, pres, pc>>
Finish == pc = "try" /\ k > Len(pres) /\ pc' = "done" /\ UNCHANGED <<fmt, pres, k, i, used, names>>
Next == TryName \/ AcceptName \/ Finish
Spec == Init /\ [][Next]_vars /\ WF_vars(Next)
Progress == HasIndex(fmt) => i <= Cardinality(used)
StuckWithoutIndex == (~HasIndex(fmt) /\ pc = "try" /\ k <= Len(pres) /\ Cand \in used) => i <= MaxN + 2
Bijection == Cardinality(Range(names)) = Len(names)
\* the machine and the functional plan agree
PlanAgrees == pc = "done" =>
    LET nodes == [n \in DOMAIN pres |-> <<"v" \o ToString(n), pres[n]>>]
        p == Plan(nodes, 1, fmt, <<>>, {}) IN p.ok /\ [n \in DOMAIN p.pairs |-> p.pairs[n][2]] = names
FirstFreeCandidate == \A n \in DOMAIN names : \A j \in 0..MaxN :
    (FmtPieces(fmt, 1, pres[n], j) = names[n] /\ \A j3 \in 0..(j - 1) : FmtPieces(fmt, 1, pres[n], j3) # names[n]) =>
        \A j2 \in 0..(j - 1) : FmtPieces(fmt, 1, pres[n], j2) \in {names[q] : q \in 1..(n - 1)}
TerminatesWithIndex == HasIndex(fmt) ~> pc = "done"
=============================================================================
