------------------------------- MODULE MC_Constant -------------------------------
(* Bounded-exhaustive instance for property C18: every string up to MaxQ over the *)
(* quote alphabet is quoted, lexed, unquoted and typed by the specification;      *)
(* every atom text up to MaxA over the atom alphabet is evaluated and typed.      *)
EXTENDS Constant
CONSTANTS MaxQ, MaxA
VARIABLES mode, text
Alphabets == JsonDeserialize("alphabets.json")
QA == Range(Alphabets.quote)
AA == Range(Alphabets.atom)
Init == mode \in {"quote", "atom"} /\ text = ""
Next == /\ Len(text) < (IF mode = "quote" THEN MaxQ ELSE MaxA)
        /\ \E c \in (IF mode = "quote" THEN QA ELSE AA) : text' = text \o c
        /\ UNCHANGED mode
Spec == Init /\ [][Next]_<<mode, text>>

QuoteIsOneStringToken == mode = "quote" =>
    LET q == Quote(text)  l == Lex(q, FALSE) IN Len(l) = 1 /\ l[1].type = "STRING" /\ l[1].text = q /\ l[1].col = 0 /\ l[1].line = 1
QuoteAlsoInTripleMode == mode = "quote" =>
    LET q == Quote(text)  l == Lex(q, TRUE) IN Len(l) = 1 /\ l[1].type = "STRING" /\ l[1].text = q
QuoteIsAscii == mode = "quote" => IsAsciiText(Quote(text))
UnquoteInverts == mode = "quote" => Unquote(Quote(text)) = <<TRUE, text>>
QuoteTypedString == mode = "quote" => TypeOf(Quote(text)) = "String" /\ EvalKind(Quote(text)) = "str"

\* JSON number syntax once more, declaratively: sign? int frac? exp?
IsDigits(x) == Len(x) >= 1 /\ AllDigits(x, 1)
IsIntPart(x) == x = "0" \/ (IsDigits(x) /\ Ch(x, 1) # "0")
IsExp(x) == Len(x) >= 2 /\ Ch(x, 1) \in {"e", "E"} /\
            (IsDigits(SubSeq(x, 2, Len(x))) \/ (Len(x) >= 3 /\ Ch(x, 2) \in {"+", "-"} /\ IsDigits(SubSeq(x, 3, Len(x)))))
IsFrac(x) == Len(x) >= 2 /\ Ch(x, 1) = "." /\ IsDigits(SubSeq(x, 2, Len(x)))
JsonNumber(s) ==
    LET u == IF StartsWith(s, "-") THEN DropFirst(s, 1) ELSE s IN
    \E i \in 1..Len(u) : \E j \in i..Len(u) :
        /\ IsIntPart(SubSeq(u, 1, i))
        /\ (j = i \/ IsFrac(SubSeq(u, i + 1, j)))
        /\ (j = Len(u) \/ IsExp(SubSeq(u, j + 1, Len(u))))
JsonFloat(s) == JsonNumber(s) /\ (HasChar(s, ".") \/ HasChar(s, "e") \/ HasChar(s, "E"))
EvalTotal == mode = "atom" => EvalKind(text) \in {"none", "error", "int", "float", "str"}
NumberIffJsonSyntax == mode = "atom" =>
    /\ (EvalKind(text) \in {"int", "float"}) <=> (JsonNumber(text) /\ ~(StartsWith(text, "\"") # EndsWith(text, "\"")))
    /\ (EvalKind(text) = "float") => JsonFloat(text)
NoneOnlyForEmpty == mode = "atom" => (EvalKind(text) = "none" <=> text = "")
ErrorIffUnbalanced == mode = "atom" => (EvalKind(text) = "error" <=> (text # "" /\ (StartsWith(text, "\"") # EndsWith(text, "\""))))
TypeMatchesKind == mode = "atom" =>
    LET k == EvalKind(text)  t == TypeOf(text) IN
    /\ (k = "int" <=> t = "Integer") /\ (k = "float" <=> t = "Float") /\ (k = "none" <=> t = "Null")
    /\ (k = "error" <=> t = "error") /\ (k = "str" <=> t \in {"String", "Symbol"})
    /\ (t = "String" => StartsWith(text, "\"") /\ EndsWith(text, "\""))
=============================================================================
