SPECIFICATION Spec
CONSTANT MaxBr = 2
CONSTANT MaxDepth = 2
CONSTANT Small = TRUE
INVARIANT Export
CHECK_DEADLOCK FALSE
