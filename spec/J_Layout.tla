------------------------------- MODULE J_Layout -------------------------------
(***************************************************************************)
(* Trace judge for the tree <-> graph layer: interpret (C04), decode/encode *)
(* round trip (C02), encode of arbitrary graphs and marker corruptions      *)
(* (C03, C06), reconfigure / rearrange / new top (C05), layout diagnostics  *)
(* (C14), relabelling (C10).                                                *)
(***************************************************************************)
EXTENDS Layout, Formatter, Relabel, IOUtils

Traces == ndJsonDeserialize(IOEnv.TRACE_FILE)
VARIABLES tid, step, ra, rb, verdict
vars == <<tid, step, ra, rb, verdict>>
T == Traces[tid]
M == IF T.model = "custom" THEN MkModel(T.mdl) ELSE Models[T.model]

Acc == <<"ACCEPT", "">>
Rej(clause) == <<"REJECT", clause>>
NA(why) == <<"NA", why>>
Drift(what) == <<"DRIFT", what>>
Known(what) == <<"KNOWN", what>>
RECURSIVE FirstFail(_, _)
FirstFail(cs, i) == IF i > Len(cs) THEN Acc ELSE IF cs[i][2] THEN FirstFail(cs, i + 1) ELSE Rej(cs[i][1])
SeqSet(s) == {s[i] : i \in DOMAIN s}

\* a logged graph: top = effective top, xtop = explicit top (NULL if none), tr, epi (index-aligned, value-keyed view)
\* the graph the specification reasons about has the explicit top only
G(lg) == [top |-> lg.xtop, tr |-> lg.tr, epi |-> lg.epi]
EffTop(lg, req) == IF req # NULL THEN req ELSE lg.top
\* logged markers: alignment texts are already in normal form (the implementation prints them from parsed indices)
LayoutOf(epi) == [i \in DOMAIN epi |-> OnlyLayout(epi[i])]
AlignsOf(epi) == [i \in DOMAIN epi |-> OnlyAligns(epi[i])]

(* ---------------- kind = "interpret" (C04) ---------------- *)
\* T: tree, model, out: ok, exc, g, vars, alns, ralns
IntA == [valid |-> GrammarValidTree(T.tree), g |-> Interpret(T.tree, M)]
\* the documented alignment maps: per distinct triple (first occurrence keeps the markers) the last marker of the type
AlnMap(g, kind) ==
    {<<g.tr[i], LET e == SelectSeq(g.epi[i], LAMBDA x : x.m = kind) IN e[Len(e)].v>> :
        i \in {j \in DOMAIN g.tr : FirstIdx(g.tr, g.tr[j]) = j /\ \E k \in DOMAIN g.epi[j] : g.epi[j][k].m = kind}}
IntV(a) ==
    IF ~a.valid THEN NA("tree not grammar-valid")
    ELSE IF ~T.out.ok THEN Rej("interpret-raised " \o T.out.exc)
    ELSE LET v == FirstFail(<<
            <<"top", T.out.g.top = a.g.top>>,
            <<"ordered-triples", T.out.g.tr = a.g.tr>>,
            <<"variables", SeqSet(T.out.vars) = Vars(a.g)>>,
            <<"alignments-attached-to-their-triple", AlignsOf(T.out.g.epi) = AlignsOf(EpiView(a.g))>>,
            <<"alignment-map", {<<T.out.alns[i][1], T.out.alns[i][2]>> : i \in DOMAIN T.out.alns} = AlnMap(a.g, "align")>>,
            <<"role-alignment-map", {<<T.out.ralns[i][1], T.out.ralns[i][2]>> : i \in DOMAIN T.out.ralns} = AlnMap(a.g, "ralign")>>,
            <<"alignment-marker-reads-its-text-as-documented",
                \A i \in DOMAIN T.out.parts : T.out.parts[i][2] = AlnPrefix(T.out.parts[i][1]) /\ T.out.parts[i][3] = AlnIndices(T.out.parts[i][1])>>,
            <<"metadata", T.out.g.meta = T.tree.meta>> >>, 1)
         IN IF v # Acc THEN v
            ELSE IF LayoutOf(T.out.g.epi) # LayoutOf(EpiView(a.g)) THEN Drift("layout markers differ from the reference walk")
            ELSE Acc

(* ---------------- kind = "roundtrip" (C02) ---------------- *)
\* T: tree, model, g (logged interpret result), t2: {ok, exc, tree}, text (format of tree), enc: {ok, exc, text}
RtA == [wf |-> GrammarValidTree(T.tree) /\ WellFormedTree(T.tree, M), norm |-> Norm(T.tree)]
RtB == IF T.enc.ok THEN Parse(Lex(T.enc.text, FALSE)) ELSE [ok |-> FALSE]
RtV(a, b) ==
    IF ~a.wf THEN NA("tree not well-formed")
    ELSE LET v == FirstFail(<<
            <<"configure-succeeds " \o T.t2.exc, T.t2.ok>>,
            <<"configure-of-interpret-is-normal-form", T.t2.ok /\ T.t2.tree = a.norm>>,
            <<"encode-of-decode-succeeds " \o T.enc.exc, T.enc.ok>>,
            <<"encoded-text-is-normal-form", b.ok /\ b.tree = a.norm>> >>, 1)
         IN IF v = Acc THEN v
            \* F25: an alignment index written with a leading zero comes back without it - and nothing else differs
            ELSE IF NormAlignments(a.norm) # a.norm /\ T.t2.ok /\ T.t2.tree = NormAlignments(a.norm)
                    /\ b.ok /\ b.tree = NormAlignments(a.norm)
                 THEN Known("F25 alignment index written with a leading zero")
            ELSE v

(* ---------------- kind = "encode" (C03, C05 new top / reconfigure, C06) ---------------- *)
\* T: g, topreq, model, op ("configure" | "reconfigure"), out: ok, exc, tree, text, re: {ok, tree}, g2: {top, tr}
EncTop == EffTop(T.g, T.topreq)
EncG == [G(T.g) EXCEPT !.top = IF T.topreq # NULL THEN T.topreq ELSE T.g.xtop]
\* every source, role and constant can be written in the notation (one SYMBOL / STRING / ROLE token each)
Expressible(g) == \A i \in DOMAIN g.tr :
                     /\ g.tr[i][1] # NULL /\ OneTok(g.tr[i][1], {"SYMBOL"})
                     /\ OneTok(g.tr[i][2], {"ROLE"})
                     /\ (g.tr[i][3] = NULL \/ g.tr[i][3] = "" \/ OneTok(g.tr[i][3], AtomTypes))
\* inverting a role twice gives it back (fails for an undefined role whose inversion the model defines: O1)
RolesInvertible(g, m) == \A i \in DOMAIN g.tr : g.tr[i][2] = ConceptRole \/ InvertRole(m, InvertRole(m, g.tr[i][2])) = g.tr[i][2]
EncA == [wf |-> /\ WellFormedGraph(G(T.g)) /\ (Len(T.g.tr) = 0 \/ EncTop \in Sources(G(T.g)))
                /\ Expressible(T.g) /\ RolesInvertible(T.g, M),
         mustfail |-> MustFail([G(T.g) EXCEPT !.top = T.g.xtop], EncTop),
         \* O10: a Push naming something that is not a variable opens a node for a constant
         markersOK |-> \A i \in DOMAIN T.g.epi : \A k \in DOMAIN T.g.epi[i] :
                          T.g.epi[i][k].m = "push" => T.g.epi[i][k].v \in Sources(G(T.g)),
         \* O11: an explicit top that is the source of nothing counts as a variable of the list
         phantom |-> T.g.xtop # NULL /\ T.g.xtop \notin Sources(G(T.g))]
EncB == IF T.out.ok THEN Interpret(T.out.tree, M) ELSE 0
EncV(a, h) ==
    IF T.out.exc \notin {"", "LayoutError"} THEN Rej("exception-class " \o T.out.exc)
    ELSE IF Len(T.g.tr) = 0 THEN (IF T.out.ok THEN Acc ELSE Rej("fails-on-empty-graph"))
    ELSE IF ~a.markersOK \/ a.phantom THEN NA("markers name non-variables or the explicit top is a phantom (O10, O11)")
    ELSE IF ~T.out.ok THEN (IF a.mustfail THEN Acc ELSE Rej("layout-error-on-connected-graph"))
    ELSE IF a.mustfail THEN Rej("no-error-on-disconnected-graph")
    ELSE IF ~a.wf THEN NA("graph not well-formed or not expressible: content clauses not judged")
    ELSE FirstFail(<<
            <<"graph-argument-left-unchanged", T.unchanged>>,
            <<"top", h.top = EncTop>>,
            <<"same-variables", Vars(h) = Sources(G(T.g))>>,
            <<"every-triple-exactly-once", BagOf(Canon(h, M)) = BagOf(Canon([top |-> EncTop, tr |-> T.g.tr], M))>>,
            <<"text-reparses-to-the-tree", T.out.re.ok /\ T.out.re.tree = Norm(T.out.tree)>>,
            <<"decode-gives-the-reading-of-the-text", T.out.g2.top = h.top /\ T.out.g2.tr = h.tr>>,
            <<"penman.encode-succeeds " \o T.out.api.exc, T.out.api.ok>>,
            <<"penman.encode-is-format-of-configure", T.out.api.text = T.out.text /\ T.out.api.codec_text = T.out.text>>,
            <<"penman.decode-of-penman.encode-gives-the-graph", T.out.api.g2 = T.out.g2>> >>, 1)

(* ---------------- kind = "rearrange" (C05) ---------------- *)
\* T: tree, key, af, model, after, exc
ReaA == [valid |-> GrammarValidTree(T.tree) /\ ConceptsFirst(T.tree), before |-> Interpret(T.tree, M), after |-> Interpret(T.after, M)]
ReaB == IF T.key = "random" THEN 0 ELSE Rearrange(T.tree, M, T.key, T.af)
ReaV(a, b) ==
    IF ~a.valid THEN NA("tree not grammar-valid")
    ELSE IF T.exc # "" THEN Rej("rearrange-raised " \o T.exc)
    ELSE LET v == FirstFail(<<
            <<"top", T.after.top = T.tree.top>>,
            <<"same-triples", BagOf(a.after.tr) = BagOf(a.before.tr)>>,
            <<"same-branches-per-node", NodeBags(T.after) = NodeBags(T.tree)>>,
            <<"concept-first", ConceptsFirst(T.after)>>,
            <<"metadata", T.after.meta = T.tree.meta>> >>, 1)
         IN IF v # Acc THEN v
            ELSE IF T.key = "random" THEN Acc
            ELSE IF ~RearrangeJudgeable(T.tree) THEN NA("ordering of aligned / non-ASCII roles not judged")
            ELSE IF T.after # b THEN Rej("order-by-key-stable") ELSE Acc

(* ---------------- kind = "diag" (C14) ---------------- *)
\* T: tree, model, ctx, pushed, inv (per triple of the decoded graph), tr (logged triples), exc, bare: {exc, ctx, pushed, inv}
DiaA == [wf |-> GrammarValidTree(T.tree) /\ WellFormedTree(T.tree, M), g |-> Interpret(T.tree, M)]
DiaV(a) ==
    IF ~a.wf THEN NA("tree not well-formed")
    ELSE IF T.exc # "" THEN Rej("diagnostics-raised " \o T.exc)
    ELSE IF T.tr # a.g.tr THEN NA("triples differ from the reading (judged under C04)")
    ELSE LET v == FirstFail(<<
            <<"one-answer-per-triple", Len(T.ctx) = Len(a.g.tr) /\ Len(T.inv) = Len(a.g.tr) /\ Len(T.pushed) = Len(a.g.tr)>>,
            <<"node-context-is-writing-node", T.ctx = a.g.wnode>>,
            <<"pushed-variable-is-opened-node", T.pushed = a.g.opened>>,
            <<"appears-inverted-iff-written-inverted", Len(T.inv) # Len(a.g.tr) \/
                \A i \in DOMAIN a.g.tr : a.g.tr[i][1] # a.g.tr[i][3] => T.inv[i] = a.g.winv[i]>>,
            <<"no-exception-without-markers " \o T.bare.exc, T.bare.exc = "">>,
            \* one answer per triple, also where the answer is "unknown"
            <<"one-answer-per-triple-without-markers",
                Len(T.bare.ctx) = Len(a.g.tr) /\ Len(T.bare.inv) = Len(a.g.tr) /\ Len(T.bare.pushed) = Len(a.g.tr)>>,
            <<"no-pushed-variable-without-markers", T.bare.exc = "" /\ \A i \in DOMAIN T.bare.pushed : T.bare.pushed[i] = NULL>>,
            \* without markers a context is unknown unless it is a node that can have written the triple
            <<"unknown-or-possible-context-without-markers", Len(T.bare.ctx) # Len(a.g.tr) \/
                \A i \in DOMAIN a.g.tr : T.bare.ctx[i] = NULL \/ T.bare.ctx[i] = a.g.tr[i][1]
                                           \/ (a.g.tr[i][2] # ConceptRole /\ T.bare.ctx[i] = a.g.tr[i][3] /\ a.g.tr[i][3] \in Sources(a.g))>> >>, 1)
         IN IF v # Acc THEN v
            \* "on graphs without markers the diagnostics answer unknown / False": inverted only where a context is known and is the target
            ELSE IF \E i \in DOMAIN a.g.tr : T.bare.inv[i] /\ a.g.tr[i][1] # a.g.tr[i][3] /\ (T.bare.ctx[i] = NULL \/ T.bare.ctx[i] # a.g.tr[i][3])
                 THEN Rej("inverted-without-markers-only-where-the-known-context-is-the-target")
            ELSE LET bare == [top |-> a.g.top, tr |-> a.g.tr, epi |-> [i \in DOMAIN a.g.tr |-> <<>>]] IN
                 IF T.bare.ctx # NodeContexts(bare) \/ T.bare.inv # [i \in DOMAIN bare.tr |-> AppearsInverted(bare, bare.tr[i])]
                 THEN Drift("marker-less diagnostics differ from the stack simulation") ELSE Acc

(* ---------------- kind = "relabel" (C10) ---------------- *)
\* T: tree, fmt (sequence of pieces), model, out: {ok, exc, tree}
RelA == [valid |-> GrammarValidTree(T.tree) /\ WellFormedTree(T.tree, M),
         plan |-> RelabelPlan(T.tree, T.fmt),
         obs |-> IF T.out.ok THEN ObservedPairs(T.tree, T.out.tree) ELSE <<>>]
RelB == IF T.out.ok THEN [before |-> Interpret(T.tree, M), after |-> Interpret(T.out.tree, M)] ELSE 0
RelV(a, b) ==
    IF ~a.valid THEN NA("tree not well-formed")
    ELSE IF ~a.plan.known /\ ~T.out.ok THEN NA("prefix of a non-ASCII concept not computable by the specification")
    ELSE IF ~a.plan.ok THEN
         (IF T.out.exc = "Hang" THEN Known("F15 format without index field on nodes that format alike")
          ELSE IF T.out.ok THEN Rej("returned-although-all-candidates-collide") ELSE Rej("raised " \o T.out.exc))
    ELSE IF ~T.out.ok THEN Rej("reset_variables-failed " \o T.out.exc)
    ELSE LET map == PairsToMap(a.obs)
             ren(x) == Ren(map, x)
             v == FirstFail(<<
                <<"same-shape", Len(a.obs) = Len(NodeList(T.tree))>>,
                <<"one-new-name-per-variable", IsFunction(a.obs)>>,
                <<"bijection-on-node-variables", IsInjective(a.obs)>>,
                \* "chosen from the node concepts": the documented fields of the format - prefix = the first alphabetic character of the
                \* node's concept, lower-cased, or "_" - filled in with some index (which index is drift, below)
                <<"name-is-the-format-applied-to-the-concept-prefix-and-an-index",
                    ~a.plan.known \/ LET nl == NodeList(T.tree) IN
                    \A k \in DOMAIN a.obs : \E i \in 0..Len(nl) : a.obs[k][2] = FmtPieces(T.fmt, 1, PrefixOf(nl[k][2])[2], i)>>,
                <<"applied-at-every-definition-and-reference-nothing-else-touched", T.out.tree = ApplyRelabel(T.tree, map)>>,
                <<"interpretation-commutes-with-renaming",
                    RelabelCollides(T.tree, map) \/
                    (b.after.top = ren(b.before.top) /\
                     b.after.tr = [i \in DOMAIN b.before.tr |->
                        <<ren(b.before.tr[i][1]), b.before.tr[i][2],
                          IF b.before.tr[i][2] # ConceptRole /\ b.before.tr[i][3] \in Vars(b.before) THEN ren(b.before.tr[i][3]) ELSE b.before.tr[i][3]>>])>>,
                \* the same law on the library's own readings (interpret() of the tree before and after the call, as logged)
                <<"interpret-of-the-relabelled-tree-is-the-renamed-interpret-of-the-original",
                    RelabelCollides(T.tree, map) \/ T.gi.exc = "before" \/
                    (T.gi.ok /\ T.gi.after.top = ren(T.gi.before.top) /\
                     T.gi.after.tr = [i \in DOMAIN T.gi.before.tr |->
                        <<ren(T.gi.before.tr[i][1]), T.gi.before.tr[i][2],
                          IF T.gi.before.tr[i][2] # ConceptRole /\ (\E k \in DOMAIN T.gi.vars : T.gi.vars[k] = T.gi.before.tr[i][3])
                          THEN ren(T.gi.before.tr[i][3]) ELSE T.gi.before.tr[i][3]>>])>> >>, 1)
         IN IF v # Acc THEN v
            ELSE IF ~a.plan.known THEN NA("prefix of a non-ASCII concept not computable by the specification (bijection clauses held)")
            \* "a bijection chosen from the node concepts in depth-first order": node after node in depth-first order, each gets the
            \* first candidate of the format (i = 0, 1, ...) that no earlier node was given
            ELSE IF map # a.plan.map THEN Rej("names-chosen-in-depth-first-order-first-free-candidate") ELSE Acc

(* ---------------- the chain ---------------- *)
A == CASE T.kind = "interpret" -> IntA [] T.kind = "roundtrip" -> RtA [] T.kind = "encode" -> EncA
       [] T.kind = "rearrange" -> ReaA [] T.kind = "diag" -> DiaA [] T.kind = "relabel" -> RelA
B == CASE T.kind = "roundtrip" -> RtB [] T.kind = "encode" -> EncB [] T.kind = "rearrange" -> ReaB
       [] T.kind = "relabel" -> RelB [] OTHER -> 0
V == CASE T.kind = "interpret" -> IntV(ra) [] T.kind = "roundtrip" -> RtV(ra, rb) [] T.kind = "encode" -> EncV(ra, rb)
       [] T.kind = "rearrange" -> ReaV(ra, rb) [] T.kind = "diag" -> DiaV(ra) [] T.kind = "relabel" -> RelV(ra, rb)

Init == tid \in 1..Len(Traces) /\ step = 0 /\ ra = 0 /\ rb = 0 /\ verdict = <<"pending", "">>
Compute1 == step = 0 /\ step' = 1 /\ ra' = A /\ UNCHANGED <<tid, rb, verdict>>
Compute2 == step = 1 /\ step' = 2 /\ rb' = B /\ UNCHANGED <<tid, ra, verdict>>
Judge == step = 2 /\ step' = 3 /\ verdict' = V /\ UNCHANGED <<tid, ra, rb>>
Next == Compute1 \/ Compute2 \/ Judge
Spec == Init /\ [][Next]_vars
Out == step = 3 => PrintT("V|" \o ToString(tid) \o "|" \o verdict[1] \o "|" \o verdict[2])
=============================================================================
