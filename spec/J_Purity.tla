------------------------------- MODULE J_Purity -------------------------------
(* Trace judge for property C17: a call history generated from Purity.tla was     *)
(* replayed on real objects under several hash seeds and inside a worker process; *)
(* every run logs the projection of every pool object before and after each call  *)
(* and the projection of the result.  The frame conditions of the machine are     *)
(* checked on the recorded snapshots, results must be a function of the argument  *)
(* values, and all runs must be identical.                                        *)
EXTENDS Purity, IOUtils
Traces == ndJsonDeserialize(IOEnv.TRACE_FILE)
VARIABLES tid, step, verdict
T == Traces[tid]
Frame(r, k) ==
    LET S == T.runs[r].steps[k]  c == T.hist[k] IN
    IF ~InPlace(c.op)
    THEN (IF \E i \in DOMAIN S.before : S.after[i] # S.before[i]
          THEN (IF \E j \in DOMAIN c.args : S.after[c.args[j]] # S.before[c.args[j]] THEN "argument-changed-by-a-pure-call" ELSE "other-object-changed-by-a-pure-call")
          ELSE "")
    ELSE (IF Len(S.after) # Len(S.before) \/ \E i \in DOMAIN S.before : i # c.args[1] /\ S.after[i] # S.before[i]
          THEN "in-place-call-changed-more-than-its-target" ELSE "")
ArgVals(r, k) == [j \in DOMAIN T.hist[k].args |-> T.runs[r].steps[k].before[T.hist[k].args[j]]]
Outcome(r, k) == IF InPlace(T.hist[k].op) THEN <<T.runs[r].steps[k].result, T.runs[r].steps[k].after[T.hist[k].args[1]]>>
                 ELSE <<T.runs[r].steps[k].result>>
V ==
    LET R == DOMAIN T.runs  K == DOMAIN T.hist
        \* appending a marker to a list of g.epidata is the user's own edit of a list, not a library call: the library shares
        \* marker lists between a transformation's (or a union's) result and its argument (O16), so the edit may show in both;
        \* reported as drift.  Every library call is held to its frame.
        frames == {<<r, k>> \in R \X K : Frame(r, k) # "" /\ T.hist[k].op # "add_marker"}
        shared == \E r \in R : \E k \in K : Frame(r, k) # "" /\ T.hist[k].op = "add_marker"
    IN IF \E r \in R : T.runs[r].exc # "" THEN <<"REJECT", "replay-failed " \o T.runs[CHOOSE r \in R : T.runs[r].exc # ""].exc>>
       ELSE IF frames # {} THEN LET p == CHOOSE x \in frames : TRUE IN
            <<"REJECT", Frame(p[1], p[2]) \o " @ " \o T.hist[p[2]].op \o " step " \o ToString(p[2]) \o " run " \o T.runs[p[1]].env>>
       ELSE IF \E k, l \in K : k < l /\ T.hist[k].op = T.hist[l].op /\ ArgVals(1, k) = ArgVals(1, l) /\ Outcome(1, k) # Outcome(1, l)
            THEN LET p == CHOOSE x \in K \X K : x[1] < x[2] /\ T.hist[x[1]].op = T.hist[x[2]].op /\ ArgVals(1, x[1]) = ArgVals(1, x[2]) /\ Outcome(1, x[1]) # Outcome(1, x[2]) IN
                 <<"REJECT", "equal-calls-give-different-results @ " \o T.hist[p[1]].op>>
       \* a returned value belongs to the caller: after the caller changed it in place, the same call on the same arguments answers the same
       ELSE IF \E k \in K : T.runs[1].steps[k].again # T.runs[1].steps[k].result
            THEN <<"REJECT", "result-changed-by-what-the-caller-did-to-an-earlier-result @ " \o T.hist[CHOOSE k \in K : T.runs[1].steps[k].again # T.runs[1].steps[k].result].op>>
       ELSE IF \E r \in R : T.runs[r].steps # T.runs[1].steps
            THEN <<"REJECT", "runs-differ-across-hash-seeds-or-processes @ " \o T.runs[CHOOSE r \in R : T.runs[r].steps # T.runs[1].steps].env>>
       ELSE IF shared THEN <<"DRIFT", "a marker list is shared between two graphs (O16)">>
       ELSE <<"ACCEPT", "">>
CliV == IF \E i \in DOMAIN T.outs : T.outs[i] # T.outs[1] THEN <<"REJECT", "command-output-differs-across-hash-seeds">> ELSE <<"ACCEPT", "">>
\* kind = "plaincall": a documented call with a mutable plain argument (a set of names, a list of triples, tables)
PlainV == IF T.arg_after # T.arg_before THEN <<"REJECT", "argument-changed-by-a-pure-call @ " \o T.call>>
          ELSE IF T.again # T.result THEN <<"REJECT", "equal-calls-give-different-results @ " \o T.call>>
          ELSE <<"ACCEPT", "">>
JInit == tid \in 1..Len(Traces) /\ step = 0 /\ verdict = <<"pending", "">> /\ pool = <<>> /\ hist = <<>>
Judge == step = 0 /\ step' = 1 /\ verdict' = (IF T.kind = "purity" THEN V ELSE IF T.kind = "plaincall" THEN PlainV ELSE CliV) /\ UNCHANGED <<tid, pool, hist>>
JSpec == JInit /\ [][Judge]_<<tid, step, verdict, pool, hist>>
Out == step = 1 => PrintT("V|" \o ToString(tid) \o "|" \o verdict[1] \o "|" \o verdict[2])
=============================================================================
