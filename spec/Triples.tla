------------------------------- MODULE Triples -------------------------------
(***************************************************************************)
(* Triple conjunctions:  role(source, target) ^ role(source, target) ...    *)
(* The documented spacing variants around the comma ("a,b" "a, b" "a ,b"    *)
(* "a , b") and around the conjunction sign ("x^y" is not possible since ^   *)
(* is a name character: "x) ^y" "x) ^ y") all read the same.  Roles are      *)
(* given their leading colon on reading and lose it on writing.              *)
(***************************************************************************)
EXTENDS Parser

StripColons(r) == LStrip(r, {":"})
FmtTriple(t) == StripColons(t[2]) \o "(" \o t[1] \o ", " \o t[3] \o ")"
FmtTriples(ts, indent) == Join([k \in DOMAIN ts |-> FmtTriple(ts[k])], IF indent THEN " ^" \o SC.lf ELSE " ^ ")
Comma(x) == IndexOf(x, ",", 1)
TTargets == {"SYMBOL", "STRING"}
RECURSIVE PTriples(_, _, _, _)
\* returns [ok |-> TRUE, ts] or an error position
PTriples(t, i, strip, acc) ==
    IF Ty(t, i) # "SYMBOL" THEN ErrAt(t, i)
    ELSE LET r0 == t[i].text
             r1 == IF strip /\ StartsWith(r0, "^") THEN DropFirst(r0, 1) ELSE r0
             role == IF StartsWith(r1, ":") THEN r1 ELSE ":" \o r1
         IN IF Ty(t, i + 1) # "LPAREN" THEN ErrAt(t, i + 1)
            ELSE IF Ty(t, i + 2) # "SYMBOL" THEN ErrAt(t, i + 2)
            ELSE LET sym == t[i + 2].text
                     c == Comma(sym)
                     src == IF c = 0 THEN sym ELSE SubSeq(sym, 1, c - 1)
                     rest == IF c = 0 THEN "" ELSE SubSeq(sym, c + 1, Len(sym))
                     \* res = <<target, index of the token expected to be RPAREN, index of an offending token or 0>>
                     res == IF rest # "" THEN <<rest, i + 3, 0>>
                            ELSE IF c # 0 THEN (IF Ty(t, i + 3) \in TTargets THEN <<t[i + 3].text, i + 4, 0>> ELSE <<NULL, i + 3, 0>>)
                            ELSE IF Ty(t, i + 3) \notin TTargets THEN <<NULL, i + 3, 0>>
                            ELSE IF t[i + 3].text = "," THEN (IF Ty(t, i + 4) \in TTargets THEN <<t[i + 4].text, i + 5, 0>> ELSE <<NULL, i + 4, 0>>)
                            ELSE IF StartsWith(t[i + 3].text, ",") THEN <<DropFirst(t[i + 3].text, 1), i + 4, 0>>
                            ELSE <<NULL, i + 4, i + 3>>
                 IN IF res[3] # 0 THEN ErrAt(t, res[3])
                    ELSE IF Ty(t, res[2]) # "RPAREN" THEN ErrAt(t, res[2])
                    ELSE LET acc1 == Append(acc, <<src, role, res[1]>>)
                             j == res[2] + 1
                         IN IF Ty(t, j) = "SYMBOL" /\ StartsWith(t[j].text, "^")
                            THEN (IF t[j].text = "^" THEN PTriples(t, j + 1, FALSE, acc1) ELSE PTriples(t, j, TRUE, acc1))
                            ELSE [ok |-> TRUE, ts |-> acc1]
ParseTriples(text) == PTriples(Lex(text, TRUE), 1, FALSE, <<>>)
\* lists that the notation can carry: symbols as sources, symbols or quoted strings as targets
\* (a symbol may begin with the conjunction sign: the sign written by the formatter stands alone, and a sign glued to the next
\* role is one character, so "^^up" is the sign and the role "^up")
TripleSafeSym(x) == LET l == Lex(x, TRUE) IN Len(l) = 1 /\ l[1].type = "SYMBOL" /\ l[1].text = x
                    /\ ~HasChar(x, ",") /\ x # "^"
TripleSafeTarget(x) == LET l == Lex(x, TRUE) IN Len(l) = 1 /\ l[1].text = x
                       /\ (l[1].type = "STRING" \/ (l[1].type = "SYMBOL" /\ ~HasChar(x, ",") /\ x # "^"))
TripleSafe(ts) == Len(ts) >= 1 /\ \A k \in DOMAIN ts :
                    /\ TripleSafeSym(ts[k][1])
                    /\ TripleSafeSym(StripColons(ts[k][2])) /\ ":" \o StripColons(ts[k][2]) = ts[k][2]
                    /\ TripleSafeTarget(ts[k][3])
=============================================================================
