------------------------------- MODULE J_Syntax -------------------------------
(***************************************************************************)
(* Trace judge for the textual layer: lexer (C08), parser (C07), formatter  *)
(* (C01), triple conjunctions (C19), constants (C18).  One initial state    *)
(* per recorded trace line; the chain Load -> Compute -> Judge re-executes   *)
(* the specification on the logged input and compares every logged          *)
(* observable.  Verdicts are total: a mismatch names the failing clause.    *)
(***************************************************************************)
EXTENDS Formatter, IOUtils
\* Triples and Constant are instantiated, not extended, so that their definitions do not clash
TR == INSTANCE Triples
CO == INSTANCE Constant

Traces == ndJsonDeserialize(IOEnv.TRACE_FILE)
VARIABLES tid, step, ra, rb, verdict
vars == <<tid, step, ra, rb, verdict>>
T == Traces[tid]

Acc == <<"ACCEPT", "">>
Rej(clause) == <<"REJECT", clause>>
NA(why) == <<"NA", why>>
Drift(what) == <<"DRIFT", what>>
\* first failing clause of a sequence of <<name, holds>>
RECURSIVE FirstFail(_, _)
FirstFail(cs, i) == IF i > Len(cs) THEN Acc ELSE IF cs[i][2] THEN FirstFail(cs, i + 1) ELSE Rej(cs[i][1])

(* ---------------- kind = "lex" ---------------- *)
\* T: text | lines, triple, toks
LexA == IF T.container = "str" THEN Lex(T.text, T.triple) ELSE LexSeq(T.lines, T.triple)
LexLinesOf == IF T.container = "str" THEN Lines(T.text) ELSE T.lines
\* don't care: VT or FF between quotes (docs exclude them from StrChar; whether such a span is a string is not judged)
LexDontCare == \E i \in DOMAIN LexLinesOf : HasChar(LexLinesOf[i], "\"") /\ (HasChar(LexLinesOf[i], SC.vt) \/ HasChar(LexLinesOf[i], SC.ff))
LexV(spec) ==
    IF T.toks = spec THEN Acc
    ELSE IF LexDontCare THEN NA("VT/FF in a line with a quote")
    ELSE IF \E i \in DOMAIN T.toks : T.toks[i].line \notin DOMAIN LexLinesOf THEN Rej("line-number")
    ELSE IF \E n \in DOMAIN LexLinesOf : ~TilesLine(LexLinesOf[n], TokensOfLine(T.toks, n)) THEN Rej("tiling")
    ELSE IF \E i \in DOMAIN T.toks : ~ClassOK(T.toks[i], T.triple) THEN Rej("class")
    ELSE Rej("maximal-munch")

(* ---------------- kind = "parse" ---------------- *)
\* T: fn in {"parse","iterparse"}, text | lines, out
ParseToks == IF T.container = "str" THEN Lex(T.text, FALSE) ELSE LexSeq(T.lines, FALSE)
ParseA == IF T.fn = "parse" THEN Parse(ParseToks) ELSE ParseAll(ParseToks)
ParseV(spec) ==
    IF T.out.exc \notin {"", "DecodeError"} THEN Rej("exception-class " \o T.out.exc)
    ELSE IF T.fn = "parse" THEN
        IF spec.ok THEN (IF ~T.out.ok THEN Rej("rejects-valid")
                         ELSE IF ~SameTree(T.out.tree, spec.tree) THEN Rej("tree") ELSE Acc)
        ELSE (IF T.out.ok THEN Rej("accepts-invalid")
              ELSE IF <<T.out.line, T.out.col>> # <<spec.line, spec.col>> THEN Rej("error-position") ELSE Acc)
    ELSE
        IF ~SameTrees(T.out.trees, spec.trees) THEN Rej("trees")
        ELSE IF ~spec.ok /\ spec.tail THEN (IF T.out.ok THEN Drift("comments after the last graph are ignored, not an error (O3)") ELSE Acc)
        ELSE IF spec.ok THEN (IF ~T.out.ok THEN Rej("rejects-valid") ELSE Acc)
        ELSE (IF T.out.ok THEN Rej("accepts-invalid")
              ELSE IF <<T.out.line, T.out.col>> # <<spec.line, spec.col>> THEN Rej("error-position") ELSE Acc)

(* ---------------- kind = "format" (C01) ---------------- *)
\* T: tree, indent, compact, text (impl format), re (impl parse of text: ok/tree/exc), text2 (impl format of re.tree)
FmtA == [valid |-> GrammarValidTree(T.tree),
         ptext |-> Parse(Lex(T.text, FALSE)),
         ktext |-> TokKey(Lex(T.text, FALSE))]
FmtB == [canon |-> TokKey(Lex(Fmt(T.tree, NONE, FALSE), FALSE)),
         exact |-> Fmt(T.tree, T.indent, T.compact)]
FmtV(a, b) ==
    IF ~a.valid THEN NA("tree not grammar-valid")
    ELSE IF T.exc # "" THEN Rej("format-raised " \o T.exc)
    ELSE LET v == FirstFail(<<
            <<"spec-parse-of-text-accepts", a.ptext.ok>>,
            <<"spec-parse-of-text-gives-tree", a.ptext.ok /\ a.ptext.tree = T.tree>>,
            <<"impl-reparse-accepts", T.re.ok>>,
            <<"impl-reparse-gives-tree", T.re.ok /\ SameTree(T.re.tree, T.tree)>>,
            <<"same-tokens-under-all-options", a.ktext = b.canon>>,
            <<"format-parse-format-fixed-point", T.text2 = T.text>> >>, 1)
         IN IF v # Acc THEN v ELSE IF T.text # b.exact THEN Drift("whitespace differs from Fmt") ELSE Acc

(* ---------------- kind = "fixpoint" (C01, accepted input strings) ---------------- *)
\* T: text (any input), out (impl parse), f1 = format(parse(text)), re1 = parse(f1), f2 = format(re1)
FixA == Parse(Lex(T.text, FALSE))
FixV(spec) ==
    IF ~spec.ok THEN NA("input not accepted")
    ELSE FirstFail(<<
            <<"impl-accepts", T.out.ok>>,
            <<"impl-tree", T.out.ok /\ SameTree(T.out.tree, spec.tree)>>,
            <<"reparse-equal-tree", T.re1.ok /\ SameTree(T.re1.tree, spec.tree)>>,
            <<"fixed-point", T.f2 = T.f1>> >>, 1)

(* ---------------- kind = "triples" (C19) ---------------- *)
\* T: ts, indent, text (impl format_triples), back (impl parse_triples of text: ok/ts/exc), variants: [[text, out]...]
TriA == [safe |-> TR!TripleSafe(T.ts),
         spec |-> TR!ParseTriples(T.text),
         fmt  |-> TR!FmtTriples(T.ts, T.indent)]
TriV(a) ==
    IF ~a.safe THEN NA("list not expressible as a conjunction")
    ELSE LET v == FirstFail(<<
            <<"spec-reads-impl-text", a.spec.ok /\ a.spec.ts = T.ts>>,
            <<"impl-reads-own-text", T.back.ok /\ T.back.ts = T.ts>>,
            <<"reads-own-text-again-after-the-caller-changed-the-first-result", T.back2.ok /\ T.back2.ts = T.ts>>,
            <<"spacing-variants-agree", \A i \in DOMAIN T.variants : T.variants[i].ok /\ T.variants[i].ts = T.ts>> >>, 1)
         IN IF v # Acc THEN v ELSE IF T.text # a.fmt THEN Drift("text differs from FmtTriples") ELSE Acc
\* kind = "ptriples": arbitrary text through parse_triples (C07 clause on triple conjunctions)
PTriA == TR!ParseTriples(T.text)
PTriV(spec) ==
    IF T.out.exc \notin {"", "DecodeError"} THEN Rej("exception-class " \o T.out.exc)
    ELSE IF spec.ok THEN (IF ~T.out.ok THEN Rej("rejects-valid") ELSE IF T.out.ts # spec.ts THEN Rej("triples") ELSE Acc)
    ELSE (IF T.out.ok THEN Rej("accepts-invalid")
          ELSE IF <<T.out.line, T.out.col>> # <<spec.line, spec.col>> THEN Rej("error-position") ELSE Acc)

(* ---------------- kind = "quote" / "eval" (C18) ---------------- *)
\* quote: T: s, q (impl quote(s)), toks (impl lex of q), back (impl evaluate(q): kind, text), type, qstr (quote(str form)) for numbers
QuoA == [q |-> CO!Quote(T.s), toks |-> Lex(T.q, FALSE), un |-> CO!Unquote(T.q)]
QuoV(a) ==
    LET v == FirstFail(<<
            <<"spec-lexer-one-string-token", Len(a.toks) = 1 /\ a.toks[1].type = "STRING" /\ a.toks[1].text = T.q /\ a.toks[1].col = 0>>,
            <<"impl-lexer-one-string-token", T.toks = a.toks>>,
            <<"evaluates-to-a-string", T.back.kind = "str">>,
            <<"evaluates-back-to-original", T.back.text = T.s>>,
            <<"typed-as-string", T.type = "String">>,
            <<"number-or-none-quoted-as-its-string-form", T.same_as_str_form>>,
            <<"spec-unquote-gives-original", ~CO!Quotable(T.s) \/ (a.un[1] /\ a.un[2] = T.s)>> >>, 1)
    IN IF v # Acc THEN v ELSE IF CO!Quotable(T.s) /\ T.q # a.q THEN Drift("escaping differs from Quote") ELSE Acc
\* eval: T: s (atom text), kind (impl: int/float/str/none/error/other:<..>), type (impl type(): name or "error"/"other:<..>"), same (str results equal the text for symbols)
EvaA == [kind |-> CO!EvalKind(T.s), type |-> CO!TypeOf(T.s)]
EvaV(a) == FirstFail(<<
            <<"evaluate-kind " \o a.kind, T.ekind = a.kind>>,
            <<"type " \o a.type, T.type = a.type>>,
            <<"symbols-unchanged", (a.kind = "str" /\ ~StartsWith(T.s, "\"")) => T.same>> >>, 1)

(* ---------------- the chain ---------------- *)
A == CASE T.kind = "lex" -> LexA [] T.kind = "parse" -> ParseA [] T.kind = "format" -> FmtA
       [] T.kind = "fixpoint" -> FixA [] T.kind = "triples" -> TriA [] T.kind = "ptriples" -> PTriA
       [] T.kind = "quote" -> QuoA [] T.kind = "eval" -> EvaA
B == CASE T.kind = "format" -> FmtB [] OTHER -> 0
V == CASE T.kind = "lex" -> LexV(ra) [] T.kind = "parse" -> ParseV(ra) [] T.kind = "format" -> FmtV(ra, rb)
       [] T.kind = "fixpoint" -> FixV(ra) [] T.kind = "triples" -> TriV(ra) [] T.kind = "ptriples" -> PTriV(ra)
       [] T.kind = "quote" -> QuoV(ra) [] T.kind = "eval" -> EvaV(ra)

Init == tid \in 1..Len(Traces) /\ step = 0 /\ ra = 0 /\ rb = 0 /\ verdict = <<"pending", "">>
Compute1 == step = 0 /\ step' = 1 /\ ra' = A /\ UNCHANGED <<tid, rb, verdict>>
Compute2 == step = 1 /\ step' = 2 /\ rb' = B /\ UNCHANGED <<tid, ra, verdict>>
Judge == step = 2 /\ step' = 3 /\ verdict' = V /\ UNCHANGED <<tid, ra, rb>>
Next == Compute1 \/ Compute2 \/ Judge
Spec == Init /\ [][Next]_vars
Out == step = 3 => PrintT("V|" \o ToString(tid) \o "|" \o verdict[1] \o "|" \o verdict[2])
=============================================================================
