SPECIFICATION Spec
CONSTANT MaxT = 2
CONSTANT MaxT2 = 2
CONSTANT MaxH = 4
INVARIANT Export
CHECK_DEADLOCK FALSE
