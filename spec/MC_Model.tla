------------------------------- MODULE MC_Model -------------------------------
(* Bounded-exhaustive instance for property C13: every model table over a small   *)
(* role universe (literal roles incl. one that ends in -of by definition, an       *)
(* optional pattern role, the no-op flag, every partial normalisation map with up  *)
(* to two entries) x every role base (+ "-of") * k, k <= MaxK.  TLC checks the     *)
(* role algebra on the specification.  Idempotence of canonicalisation holds       *)
(* exactly for closed normalisation tables (finding F16): the instance states it   *)
(* under that precondition and states the refutation separately.                   *)
EXTENDS Model
CONSTANT MaxK
VARIABLES m, base, k
LitSets == SUBSET {":a", ":b", ":c-of"}
PatSets == {{}, {<<":op", "many">>}}
NormKeysU == {":a-of", ":b", ":c", ":a"}
NormValsU == {":a", ":b", ":c-of", ":b-of-of"}
NormPairs == NormKeysU \X NormValsU
NormSeqs == {<<>>} \cup {<<p>> : p \in NormPairs}
            \cup {<<p, q>> : <<p, q>> \in {pq \in NormPairs \X NormPairs : pq[1][1] # pq[2][1]}}
Bases == {":a", ":b", ":c-of", ":d", ":op1", ":op", "a", "", ":", ":TOP", ":instance"}
Init == /\ m \in [lits : LitSets, pats : PatSets, noop : BOOLEAN, norm : NormSeqs, reifs : {<<>>}]
        /\ base \in Bases /\ k = 0
Next == k < MaxK /\ k' = k + 1 /\ UNCHANGED <<m, base>>
Spec == Init /\ [][Next]_<<m, base, k>>
RECURSIVE WithOf(_, _)
WithOf(b, n) == IF n = 0 THEN b ELSE WithOf(b, n - 1) \o "-of"
role == WithOf(base, k)
c == EnsureColon(role)
\* O1: an undefined role whose single inversion the model defines is outside the algebra
InZone(r) == ~(~Defined(m, r) /\ Defined(m, r \o "-of"))
canon == CanonRole(m, role)
pre == PreNorm(m, role)

AddsColon == StartsWith(canon, ":") \/ (NormOf(m, pre) # pre)          \* a normalisation value is whatever the table says
ColonBeforeNormalisation == StartsWith(pre, ":")
DefinedNeverInverted == Defined(m, c) => ~IsInverted(m, c)
\* inversions are removed in pairs: parity of the inversion count is kept, at most one inversion remains
PairsOnly == InZone(pre) => /\ OfCount(m, pre) \in {0, 1}
                            /\ (OfCount(m, c) % 2) = (OfCount(m, pre) % 2)
                            /\ (\E n \in 0..MaxK : WithOf(pre, 2 * n) = c)
NormalisationLast == canon = NormOf(m, pre) /\ PreNorm(m, pre) = pre
IdempotentIfClosed == ClosedTable(m) => CanonRole(m, canon) = canon
\* on inversion-canonical roles inverting is an involution that flips inverted-ness
Involution == InZone(pre) /\ InZone(InvertRole(m, pre)) =>
                 /\ InvertRole(m, InvertRole(m, pre)) = pre
                 /\ IsInverted(m, InvertRole(m, pre)) = ~IsInverted(m, pre)
TripleLaws == LET t == <<"s", pre, "t">> IN
                 /\ Invert(m, t) = <<"t", InvertRole(m, pre), "s">>
                 /\ (m.noop => Deinvert(m, t) = t)
                 /\ (~m.noop /\ IsInverted(m, pre) => Deinvert(m, t) = Invert(m, t))
                 /\ (~IsInverted(m, pre) => Deinvert(m, t) = t)
HasRoleLaw == HasRole(m, c) <=> (Defined(m, c) \/ (EndsWith(c, "-of") /\ Defined(m, DropLast(c, 3))))
\* the refutation that characterises F16 (expected to be violated: run with MC_Model_f16.cfg)
IdempotentAlways == CanonRole(m, canon) = canon
SetToSeq(S) == CHOOSE f \in [1..Cardinality(S) -> S] : Range(f) = S
Export == PrintT("X|" \o ToJson([mdl |-> [lits |-> SetToSeq(m.lits), pats |-> SetToSeq(m.pats), noop |-> m.noop, norm |-> m.norm, reifs |-> <<>>], role |-> role]))
=============================================================================
