SPECIFICATION Spec
CONSTANT MaxK = 4
INVARIANT AddsColon
INVARIANT ColonBeforeNormalisation
INVARIANT DefinedNeverInverted
INVARIANT PairsOnly
INVARIANT NormalisationLast
INVARIANT IdempotentIfClosed
INVARIANT Involution
INVARIANT TripleLaws
INVARIANT HasRoleLaw
CHECK_DEADLOCK FALSE
