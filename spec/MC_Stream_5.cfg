SPECIFICATION Spec
CONSTANT MaxLen = 5
INVARIANT ContainersAgree
INVARIANT OnlyThreeTerminators
INVARIANT RoundTrip
INVARIANT FileRoundTrip
CHECK_DEADLOCK FALSE
