SPECIFICATION Spec
CONSTANT GUARD = FALSE
CONSTANT MAXX = 2
CONSTANT MODE = "corrupt"
CONSTANT defaultInitValue = defaultInitValue
INVARIANT PostOK
INVARIANT RoundsBounded
PROPERTY Termination
CHECK_DEADLOCK FALSE
