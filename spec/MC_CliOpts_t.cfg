SPECIFICATION Spec
CONSTANT NearOnly = FALSE
CONSTANT FullSpace = TRUE
INVARIANT StageLists
CHECK_DEADLOCK FALSE
