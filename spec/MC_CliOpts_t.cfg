SPECIFICATION Spec
CONSTANT FullSpace = TRUE
INVARIANT StageLists
CHECK_DEADLOCK FALSE
