------------------------------- MODULE Cli -------------------------------
(***************************************************************************)
(* The penman command (docs/command.rst): option decoding, the pipeline     *)
(* every graph goes through, the loops over inputs and graphs, separators   *)
(* and the exit status.                                                     *)
(*                                                                          *)
(* Part 1 (constant level): an option record o is rendered to an argument   *)
(* vector and decoded into the list of pipeline stages, each carrying what  *)
(* it must be given (model, sort-key methods, attributes-first, format      *)
(* arguments).  The stage semantics are the library functions.              *)
(* Part 2 (machine): inputs are sequences of graphs that are compliant      *)
(* ("good") or not ("bad"); the tool processes inputs in order, graphs in   *)
(* order, emits one output block per graph, and exits non-zero exactly when *)
(* --check is given and some graph of some input has an error.              *)
(***************************************************************************)
EXTENDS Naturals, Sequences, FiniteSets, TLC, Json
CONSTANT FullSpace        \* TRUE: every option value of the instance; FALSE: a reduced grid for quick runs

ModelsO == {"default", "amr", "noop", "file"}
Reconf == IF FullSpace THEN {"", "original", "canonical", "random"} ELSE {"", "canonical", "random"}
Rearr  == IF FullSpace
          THEN {"", "canonical", "alphanumeric", "attributes-first,alphanumeric", "inverted-last", "alphanumeric,attributes-first",
                "attributes-first", "canonical,inverted-last", "random"}
          ELSE {"", "canonical", "attributes-first,alphanumeric", "random"}
MkVars == IF FullSpace THEN {"", "{prefix}{j}", "x{i}"} ELSE {"", "{prefix}{j}"}
Indents == IF FullSpace THEN {"", "no", "None", "-1", "0", "3"} ELSE {"", "no", "0", "3"}
OptSpace == [model : ModelsO, canon : BOOLEAN, re : BOOLEAN, de : BOOLEAN, ra : BOOLEAN, ib : BOOLEAN,
             reconf : Reconf, rearr : Rearr, mk : MkVars, indent : Indents, compact : BOOLEAN,
             triples : BOOLEAN, check : BOOLEAN]

\* option sets that differ from "no option at all" in at most two fields, over the full value space: every option value alone and
\* every pair of option values (replayed completely in the quick tier, whatever the sample of the product space contains)
DefaultOpt == [model |-> "default", canon |-> FALSE, re |-> FALSE, de |-> FALSE, ra |-> FALSE, ib |-> FALSE, reconf |-> "", rearr |-> "",
               mk |-> "", indent |-> "", compact |-> FALSE, triples |-> FALSE, check |-> FALSE]
ValsOf(f) == CASE f = "model" -> ModelsO [] f = "reconf" -> Reconf [] f = "rearr" -> Rearr [] f = "mk" -> MkVars [] f = "indent" -> Indents
               [] OTHER -> BOOLEAN
NearDefault == UNION {{[DefaultOpt EXCEPT ![fs[1]] = v1, ![fs[2]] = v2] : v1 \in ValsOf(fs[1]), v2 \in ValsOf(fs[2])} :
                      fs \in (DOMAIN DefaultOpt) \X (DOMAIN DefaultOpt)}

Opt(b, flag) == IF b THEN <<flag>> ELSE <<>>
OptV(v, flag) == IF v = "" THEN <<>> ELSE <<flag, v>>
ModelArgs(o) == CASE o.model = "default" -> <<>> [] o.model = "file" -> <<"--model", "@MODELFILE@">> [] OTHER -> <<"--" \o o.model>>
Args(o) == ModelArgs(o)
        \o Opt(o.check, "--check") \o (IF o.indent = "" THEN <<>> ELSE <<"--indent=" \o o.indent>>) \o Opt(o.compact, "--compact")
        \o Opt(o.triples, "--triples")
        \o OptV(o.mk, "--make-variables") \o OptV(o.rearr, "--rearrange") \o OptV(o.reconf, "--reconfigure")
        \o Opt(o.canon, "--canonicalize-roles") \o Opt(o.re, "--reify-edges") \o Opt(o.de, "--dereify-edges")
        \o Opt(o.ra, "--reify-attributes") \o Opt(o.ib, "--indicate-branches")
\* documented decoding of --indent: absent -> adaptive (-1); "no"/"none"/"false" in any case -> single line; else the integer
IndentVal(o) == CASE o.indent = "" -> "-1" [] o.indent \in {"no", "None"} -> "none" [] OTHER -> o.indent
\* format_triples takes a boolean: adaptive and positive widths mean one triple per line
TriplesIndented(o) == o.indent \in {"", "-1", "3"}
\* key names of --rearrange / --reconfigure: model methods, or the attributes_first switch
KeyFn(name) == CASE name = "canonical" -> <<"canonical_order">> [] name = "alphanumeric" -> <<"alphanumeric_order">>
                 [] name = "original" -> <<"original_order">> [] name = "inverted-last" -> <<"is_role_inverted">>
                 [] name = "random" -> <<"random_order">> [] name = "attributes-first" -> <<>>
RECURSIVE SplitComma(_, _, _)
SplitComma(s, i, start) == IF i > Len(s) THEN <<SubSeq(s, start, Len(s))>>
                           ELSE IF SubSeq(s, i, i) = "," THEN <<SubSeq(s, start, i - 1)>> \o SplitComma(s, i + 1, i + 1)
                           ELSE SplitComma(s, i + 1, start)
RECURSIVE KeyFnsOf(_, _)
KeyFnsOf(names, i) == IF i > Len(names) THEN <<>> ELSE KeyFn(names[i]) \o KeyFnsOf(names, i + 1)
KeyFns(list) == IF list = "" THEN <<>> ELSE KeyFnsOf(SplitComma(list, 1, 1), 1)
AttrsFirst(list) == list # "" /\ \E i \in DOMAIN SplitComma(list, 1, 1) : SplitComma(list, 1, 1)[i] = "attributes-first"
UsesRandom(o) == (\E i \in DOMAIN KeyFns(o.rearr) : KeyFns(o.rearr)[i] = "random_order")
                 \/ (\E i \in DOMAIN KeyFns(o.reconf) : KeyFns(o.reconf)[i] = "random_order")
St(o, fn) == [fn |-> fn, model |-> o.model, keys |-> <<>>, af |-> FALSE, arg |-> "", flag |-> FALSE]
\* the documented pipeline, per tree: every model-dependent stage receives the selected model
Stages(o) ==
    (IF o.canon THEN <<St(o, "canonicalize_roles")>> ELSE <<>>)
    \o <<St(o, "interpret")>>
    \o (IF o.re THEN <<St(o, "reify_edges")>> ELSE <<>>)
    \o (IF o.de THEN <<St(o, "dereify_edges")>> ELSE <<>>)
    \o (IF o.ra THEN <<St(o, "reify_attributes")>> ELSE <<>>)
    \o (IF o.ib THEN <<St(o, "indicate_branches")>> ELSE <<>>)
    \o (IF o.check THEN <<St(o, "check")>> ELSE <<>>)
    \o (IF o.triples THEN <<[St(o, "format_triples") EXCEPT !.flag = TriplesIndented(o)]>>
        ELSE (IF o.reconf # "" THEN <<[St(o, "reconfigure") EXCEPT !.keys = KeyFns(o.reconf)]>>
              ELSE <<St(o, "configure")>>)
             \o (IF o.rearr # "" THEN <<[St(o, "rearrange") EXCEPT !.keys = KeyFns(o.rearr), !.af = AttrsFirst(o.rearr)]>> ELSE <<>>)
             \o (IF o.mk # "" THEN <<[St(o, "reset_variables") EXCEPT !.arg = o.mk]>> ELSE <<>>)
             \o <<[St(o, "format") EXCEPT !.arg = IndentVal(o), !.flag = o.compact]>>)
\* feeding the output back with the same options must reproduce it unless the layout is deliberately re-decided
IdempotentOptions(o) == o.reconf = "" /\ ~o.ib /\ ~UsesRandom(o)
NoNormalisation(o) == ~o.canon /\ ~o.re /\ ~o.de /\ ~o.ra /\ ~o.ib /\ o.reconf = "" /\ o.rearr = "" /\ o.mk = "" /\ ~o.triples
Plan(o) == [args |-> Args(o), stages |-> Stages(o), idempotent |-> IdempotentOptions(o), plain |-> NoNormalisation(o),
            random |-> UsesRandom(o), check |-> o.check, triples |-> o.triples,
            \* one output block per graph; a blank line between graphs of one input, none between inputs
            blank_between_graphs |-> TRUE, blank_between_inputs |-> FALSE]

(* ---- stage-list sanity (checked by MC_Cli over the whole option space) ---- *)
FnSeq(o) == [i \in DOMAIN Stages(o) |-> Stages(o)[i].fn]
Order == <<"canonicalize_roles", "interpret", "reify_edges", "dereify_edges", "reify_attributes", "indicate_branches", "check",
           "reconfigure", "configure", "rearrange", "reset_variables", "format", "format_triples">>
Pos(fn) == CHOOSE i \in DOMAIN Order : Order[i] = fn
InDocumentedOrder(o) == \A i, j \in DOMAIN Stages(o) : i < j => Pos(Stages(o)[i].fn) < Pos(Stages(o)[j].fn)
ModelEverywhere(o) == \A i \in DOMAIN Stages(o) : Stages(o)[i].model = o.model
OneLayoutStage(o) == Cardinality({i \in DOMAIN Stages(o) : Stages(o)[i].fn \in {"configure", "reconfigure"}}) = (IF o.triples THEN 0 ELSE 1)
EndsWithFormat(o) == Stages(o)[Len(Stages(o))].fn = (IF o.triples THEN "format_triples" ELSE "format")
=============================================================================
