------------------------------- MODULE Constant -------------------------------
(***************************************************************************)
(* Constants (docs/api/penman.constant.rst): quoting is JSON string         *)
(* escaping with ASCII-only output; evaluation returns an integer or float  *)
(* exactly for JSON number syntax, None for the empty text, the text itself *)
(* for symbols, the unescaped content for strings, and the documented       *)
(* constant error for unbalanced quotes and for JSON containers; the type   *)
(* follows the evaluated value.  Numeric values are not modelled (TLC has   *)
(* 32-bit integers and no floats): only kinds.                              *)
(***************************************************************************)
EXTENDS Parser

\* RFC 8259 short escapes, \uXXXX otherwise, for the characters of chars.json; printable ASCII is copied
EscTable == [c \in {"\"", "\\", SC.lf, SC.cr, SC.tab, SC.ff, SC.bs, SC.vt, SC.nul, SC.ls, SC.ps, SC.nel, SC.fs, SC.nbsp,
                    SC.eacute, SC.del, SC.esc, SC.isp, SC.cjk, SC.cyr, SC.bel, SC.gs, SC.rs, SC.us, SC.Eacute, SC.zwsp, SC.ogham, SC.ensp} |->
    CASE c = "\"" -> "\\\"" [] c = "\\" -> "\\\\" [] c = SC.lf -> "\\n" [] c = SC.cr -> "\\r" [] c = SC.tab -> "\\t"
      [] c = SC.ff -> "\\f" [] c = SC.bs -> "\\b" [] c = SC.vt -> "\\u000b" [] c = SC.nul -> "\\u0000"
      [] c = SC.ls -> "\\u2028" [] c = SC.ps -> "\\u2029" [] c = SC.nel -> "\\u0085" [] c = SC.fs -> "\\u001c"
      [] c = SC.gs -> "\\u001d" [] c = SC.rs -> "\\u001e" [] c = SC.us -> "\\u001f" [] c = SC.nbsp -> "\\u00a0"
      [] c = SC.eacute -> "\\u00e9" [] c = SC.Eacute -> "\\u00c9" [] c = SC.del -> "\\u007f" [] c = SC.esc -> "\\u001b"
      [] c = SC.isp -> "\\u3000" [] c = SC.cjk -> "\\u4e2d" [] c = SC.cyr -> "\\u0436" [] c = SC.bel -> "\\u0007"
      [] c = SC.zwsp -> "\\u200b" [] c = SC.ogham -> "\\u1680" [] c = SC.ensp -> "\\u2002"]
Quotable(s) == \A i \in 1..Len(s) : Ch(s, i) \in DOMAIN EscTable \/ Ch(s, i) \in DOMAIN AsciiRank
RECURSIVE EscAll(_, _)
EscAll(s, i) == IF i > Len(s) THEN "" ELSE (IF Ch(s, i) \in DOMAIN EscTable THEN EscTable[Ch(s, i)] ELSE Ch(s, i)) \o EscAll(s, i + 1)
Quote(s) == "\"" \o EscAll(s, 1) \o "\""
\* inverse, for the escapes above
UnEsc2 == [e \in {EscTable[c] : c \in {x \in DOMAIN EscTable : Len(EscTable[x]) = 2}} |-> CHOOSE c \in DOMAIN EscTable : EscTable[c] = e]
UnEsc6 == [e \in {EscTable[c] : c \in {x \in DOMAIN EscTable : Len(EscTable[x]) = 6}} |-> CHOOSE c \in DOMAIN EscTable : EscTable[c] = e]
RECURSIVE UnescBody(_, _)
\* body between the quotes; returns <<ok, text>>
UnescBody(s, i) ==
    IF i > Len(s) THEN <<TRUE, "">>
    ELSE IF Ch(s, i) = "\\" THEN
         IF i + 1 <= Len(s) /\ SubSeq(s, i, i + 1) \in DOMAIN UnEsc2
         THEN LET r == UnescBody(s, i + 2) IN <<r[1], UnEsc2[SubSeq(s, i, i + 1)] \o r[2]>>
         ELSE IF i + 5 <= Len(s) /\ SubSeq(s, i, i + 5) \in DOMAIN UnEsc6
         THEN LET r == UnescBody(s, i + 6) IN <<r[1], UnEsc6[SubSeq(s, i, i + 5)] \o r[2]>>
         ELSE <<FALSE, "">>
    ELSE LET r == UnescBody(s, i + 1) IN <<r[1], Ch(s, i) \o r[2]>>
Unquote(q) == UnescBody(SubSeq(q, 2, Len(q) - 1), 1)

\* JSON number: -? (0 | [1-9][0-9]*) (. [0-9]+)? ([eE] [+-]? [0-9]+)?   ->  "int" | "float" | "no"
NumKind(s) ==
    LET p0 == IF Len(s) >= 1 /\ Ch(s, 1) = "-" THEN 2 ELSE 1
        p1 == IF p0 <= Len(s) /\ Ch(s, p0) = "0" THEN p0 + 1
              ELSE IF p0 <= Len(s) /\ Ch(s, p0) \in (Digits \ {"0"}) THEN RunIn(s, p0, Digits) ELSE 0
        hasFrac == p1 # 0 /\ p1 + 1 <= Len(s) /\ Ch(s, p1) = "." /\ Ch(s, p1 + 1) \in Digits
        p2 == IF hasFrac THEN RunIn(s, p1 + 1, Digits) ELSE p1
        e1 == IF p2 # 0 /\ p2 <= Len(s) /\ Ch(s, p2) \in {"e", "E"} THEN p2 + 1 ELSE 0
        e2 == IF e1 # 0 /\ e1 <= Len(s) /\ Ch(s, e1) \in {"+", "-"} THEN e1 + 1 ELSE e1
        hasExp == e2 # 0 /\ e2 <= Len(s) /\ Ch(s, e2) \in Digits
        p3 == IF hasExp THEN RunIn(s, e2, Digits) ELSE p2
    IN IF p1 = 0 \/ p3 # Len(s) + 1 THEN "no" ELSE IF hasFrac \/ hasExp THEN "float" ELSE "int"
\* the JSON containers of the test alphabet: [] {} and arrays of numbers, of the three JSON literals and of plain strings
\* (no quote, backslash or comma inside)
PlainJsonString(s) == Len(s) >= 2 /\ Ch(s, 1) = "\"" /\ Ch(s, Len(s)) = "\"" /\ \A i \in 2..(Len(s) - 1) : Ch(s, i) \notin {"\"", "\\", ","}
JsonElem(s) == NumKind(s) # "no" \/ s \in {"true", "false", "null"} \/ PlainJsonString(s)
RECURSIVE NumList(_)
NumList(s) == LET c == IndexOf(s, ",", 1) IN
              IF c = 0 THEN JsonElem(s) ELSE JsonElem(SubSeq(s, 1, c - 1)) /\ NumList(SubSeq(s, c + 1, Len(s)))
IsJsonContainer(s) == s \in {"[]", "{}"} \/ (Len(s) >= 3 /\ Ch(s, 1) = "[" /\ Ch(s, Len(s)) = "]" /\ NumList(SubSeq(s, 2, Len(s) - 1)))
EvalKind(s) ==
    IF s = "" \/ s = NULL THEN "none"
    ELSE IF StartsWith(s, "\"") # EndsWith(s, "\"") THEN "error"
    ELSE IF NumKind(s) # "no" THEN NumKind(s)
    ELSE IF IsJsonContainer(s) THEN "error"
    ELSE "str"
TypeOf(s) == LET k == EvalKind(s) IN
             IF k = "int" THEN "Integer" ELSE IF k = "float" THEN "Float" ELSE IF k = "none" THEN "Null"
             ELSE IF k = "str" /\ StartsWith(s, "\"") /\ EndsWith(s, "\"") THEN "String" ELSE IF k = "str" THEN "Symbol" ELSE "error"
=============================================================================
