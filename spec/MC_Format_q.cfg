SPECIFICATION Spec
CONSTANT MaxBr = 2
CONSTANT MaxDepth = 2
CONSTANT Small = TRUE
INVARIANT Generated
INVARIANT RoundTrip
INVARIANT SameTokens
INVARIANT FixedPoint
INVARIANT OnlyWhitespaceDiffers
CHECK_DEADLOCK FALSE
