------------------------------- MODULE MC_Lexer -------------------------------
(* Bounded-exhaustive instance of Lexer: every text up to MaxLen over the      *)
(* lexer alphabet (alphabets.json), both token patterns.  Checks property C08  *)
(* on the specification itself and checks the operational scanner against the *)
(* declarative token classes.                                                  *)
EXTENDS Lexer
CONSTANT MaxLen
VARIABLE text
Alphabets == JsonDeserialize("alphabets.json")
Alpha == Range(Alphabets.lexer)
Init == text = ""
Next == Len(text) < MaxLen /\ \E c \in Alpha : text' = text \o c
Spec == Init /\ [][Next]_text

RECURSIVE NTerm(_, _)
NTerm(s, i) == IF i > Len(s) THEN 0
               ELSE IF Ch(s, i) = SC.cr /\ i < Len(s) /\ Ch(s, i + 1) = SC.lf THEN 1 + NTerm(s, i + 2)
               ELSE IF Ch(s, i) \in {SC.cr, SC.lf} THEN 1 + NTerm(s, i + 1) ELSE NTerm(s, i + 1)
RECURSIVE Concat(_, _)
Concat(ss, i) == IF i > Len(ss) THEN "" ELSE ss[i] \o Concat(ss, i + 1)
\* only LF, CRLF and CR end a line
LinesOK == LET ls == Lines(text) IN
           /\ Len(ls) = NTerm(text, 1) + 1
           /\ \A i \in DOMAIN ls : ~HasChar(ls[i], SC.lf) /\ ~HasChar(ls[i], SC.cr)
           /\ Concat(LinesKeep(text), 1) = text
           /\ \A i \in DOMAIN LinesKeep(text) : RStrip(LinesKeep(text)[i], {SC.cr, SC.lf}) = ls[i]
Tiling == \A tr \in BOOLEAN :
            LET toks == Lex(text, tr)  ls == Lines(text) IN
            /\ \A i \in DOMAIN toks : toks[i].line \in DOMAIN ls
            /\ \A i \in 1..(Len(toks) - 1) : toks[i].line <= toks[i + 1].line
            /\ \A n \in DOMAIN ls : TilesLine(ls[n], TokensOfLine(toks, n))
ClassByGrammar == \A tr \in BOOLEAN : LET toks == Lex(text, tr) IN \A i \in DOMAIN toks : ClassOK(toks[i], tr)
\* no longer text of the same class starts at the same position (maximal munch), and an UNEXPECTED
\* character is one at which no class of the pattern can start
MaximalMunch == \A tr \in BOOLEAN :
    LET toks == Lex(text, tr)  ls == Lines(text) IN
    \A i \in DOMAIN toks :
      LET k == toks[i]  s == ls[k.line]  b == k.col + 1  e == k.col + Len(k.text)
          Longer(P(_)) == \E e2 \in (e + 1)..Len(s) : P(SubSeq(s, b, e2))
      IN CASE k.type = "SYMBOL" -> ~Longer(IsSymbolText)
           [] k.type = "ROLE" -> ~Longer(IsRoleText)
           [] k.type = "ALIGNMENT" -> ~Longer(IsAlignmentText)
           [] k.type = "COMMENT" -> e = Len(s)
           [] k.type = "STRING" -> ~Longer(IsStringText) /\ \A e1 \in b..(e - 1) : ~IsStringText(SubSeq(s, b, e1))
           [] k.type = "UNEXPECTED" ->
                 /\ k.text \in NonName \/ (tr /\ FALSE)
                 /\ k.text = "\"" => \A e2 \in (b + 1)..Len(s) : ~IsStringText(SubSeq(s, b, e2))
                 /\ (k.text = "~" /\ ~tr) => \A e2 \in (b + 1)..Len(s) : ~IsAlignmentText(SubSeq(s, b, e2))
                 /\ k.text \in {"\"", "~"} \/ (tr /\ k.text \in {"/", ":", "~"})
           [] OTHER -> TRUE
\* the same text as one string or as its list of lines
ContainersAgree == \A tr \in BOOLEAN : LexSeq(Lines(text), tr) = Lex(text, tr)
\* tokens from position p of a line depend only on the rest of the line
SuffixLocal == LET ls == Lines(text) IN
    \A n \in DOMAIN ls : \A p \in 1..Len(ls[n]) :
        (p = 1 \/ Ch(ls[n], p - 1) \in Blanks) =>
            LET whole == LexLine(ls[n], 1, 1, FALSE, <<>>)
                rest  == LexLine(SubSeq(ls[n], p, Len(ls[n])), 1, 1, FALSE, <<>>)
                tail  == SelectSeq(whole, LAMBDA k : k.col >= p - 1)
            IN (\A k \in Range(whole) : k.col >= p - 1 \/ k.col + Len(k.text) <= p - 1) =>
                 [i \in DOMAIN tail |-> [tail[i] EXCEPT !.col = @ - (p - 1)]] = rest
=============================================================================
