SPECIFICATION JSpec
CONSTANT MaxCalls = 0
CONSTANT MaxPool = 0
INVARIANT Out
CHECK_DEADLOCK FALSE
