------------------------------- MODULE Formatter -------------------------------
(***************************************************************************)
(* Tree -> text for every (indent, compact), as docs/command.rst describes: *)
(* metadata lines "# ::key value" first; then the node.  indent = NONE      *)
(* writes a single line; indent = -1 aligns branches under the first branch *)
(* of their node (adaptive); indent = N >= 0 indents N columns per level.   *)
(* compact joins the leading run of attribute branches of a node on the     *)
(* node's first line.  Whatever the options, the token sequence is the same.*)
(***************************************************************************)
EXTENDS Parser

NONE == 0 - 2                      \* indent=None
TreeVars(t) == (IF t.top = NULL THEN {} ELSE {t.top})
               \cup {t.br[k].val : k \in {j \in DOMAIN t.br : t.br[j].kind = "node" /\ t.br[j].val # NULL}}
Colon(role) == IF role # "/" /\ ~StartsWith(role, ":") THEN ":" \o role ELSE role

RECURSIVE FNode(_, _, _, _, _, _, _), FEdges(_, _, _, _, _, _, _, _, _)
\* FNode(t, k, d, var, col, indent, vars) = <<text, next index>> for the node whose branches start at k with depth d
FNode(t, k, d, var, col, indent, vars) ==
    IF var = NULL \/ var = "" THEN <<"()", k>>
    ELSE IF k > Len(t.br) \/ t.br[k].d # d THEN <<"(" \o var \o ")", k>>
    ELSE LET col1 == IF indent = NONE THEN col ELSE IF indent = 0 - 1 THEN col + Len(var) + 2 ELSE col + indent
             joiner == IF indent = NONE THEN " " ELSE SC.lf \o Spaces(col1)
             r == FEdges(t, k, d, col1, indent, vars, vars # {}, <<>>, joiner)
         IN <<"(" \o var \o " " \o r[1] \o ")", r[2]>>
\* returns <<joined text, next index>>
FEdges(t, k, d, col, indent, vars, compact, parts, joiner) ==
    IF k > Len(t.br) \/ t.br[k].d # d
    THEN <<Join(IF compact THEN <<Join(parts, " ")>> ELSE parts, joiner), k>>
    ELSE LET b == t.br[k]
             role == Colon(b.role)
             col2 == IF indent = 0 - 1 THEN col + Len(role) + 1 ELSE col
             breaks == compact /\ (b.kind = "node" \/ b.val \in vars)
             compact2 == compact /\ ~breaks
             parts1 == IF breaks /\ Len(parts) > 0 THEN <<Join(parts, " ")>> ELSE parts
         IN IF b.kind = "node"
            THEN LET n == FNode(t, k + 1, d + 1, b.val, col2, indent, vars)
                 IN FEdges(t, n[2], d, col, indent, vars, compact2, Append(parts1, role \o " " \o n[1]), joiner)
            ELSE FEdges(t, k + 1, d, col, indent, vars, compact2,
                        Append(parts1, IF b.val = NULL \/ b.val = "" THEN role ELSE role \o " " \o b.val), joiner)
FmtMetaLine(kv) == "# ::" \o kv[1] \o (IF kv[2] = "" THEN "" ELSE " " \o kv[2])
FmtBody(t, indent, compact) == FNode(t, 1, 0, t.top, 0, indent, IF compact THEN TreeVars(t) ELSE {})[1]
Fmt(t, indent, compact) == Join([i \in DOMAIN t.meta |-> FmtMetaLine(t.meta[i])] \o <<FmtBody(t, indent, compact)>>, SC.lf)

(* ---- which trees the grammar can express ("grammar-valid" in property C01) ---- *)
OneTok(x, types) == LET l == Lex(x, FALSE) IN Len(l) = 1 /\ l[1].type \in types /\ l[1].text = x
\* text that lexes as exactly  T  or  T ALIGNMENT  spanning everything without blanks
TokPlusAln(x, types) ==
    LET l == Lex(x, FALSE) IN
    \/ Len(l) = 1 /\ l[1].type \in types /\ l[1].text = x
    \/ Len(l) = 2 /\ l[1].type \in types /\ l[2].type = "ALIGNMENT" /\ l[1].text \o l[2].text = x
ValidMetaKey(k) == ~HasChar(k, " ") /\ IndexOf2(k, "::", 1) = 0 /\ ~HasChar(k, SC.lf) /\ ~HasChar(k, SC.cr)
                   /\ ~StartsWith(k, ":")
ValidMetaVal(v) == IndexOf2(v, "::", 1) = 0 /\ ~HasChar(v, SC.lf) /\ ~HasChar(v, SC.cr)
                   /\ (Len(v) = 0 \/ Ch(v, Len(v)) \notin PyWS)
GrammarValidTree(t) ==
    /\ t.top # NULL => OneTok(t.top, {"SYMBOL"})
    /\ \A k \in DOMAIN t.br :
         LET b == t.br[k] IN
         /\ IF b.role = "/"
            THEN b.kind = "atom" /\ (IF b.d = 0 THEN k = 1 ELSE t.br[k - 1].kind = "node" /\ t.br[k - 1].d = b.d - 1)
            ELSE TokPlusAln(b.role, {"ROLE"})       \* a role is written with its colon
         /\ IF b.kind = "node" THEN (b.val # NULL => OneTok(b.val, {"SYMBOL"}))
            ELSE b.val = NULL \/ TokPlusAln(b.val, AtomTypes)
         \* an empty nested node has no branches of its own
         /\ (b.kind = "node" /\ b.val = NULL) => (k = Len(t.br) \/ t.br[k + 1].d <= b.d)
    /\ (t.top = NULL => Len(t.br) = 0)
    /\ \A i \in DOMAIN t.meta : ValidMetaKey(t.meta[i][1]) /\ ValidMetaVal(t.meta[i][2])
    /\ \A i, j \in DOMAIN t.meta : i # j => t.meta[i][1] # t.meta[j][1]
=============================================================================
