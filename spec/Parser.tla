------------------------------- MODULE Parser -------------------------------
(***************************************************************************)
(* The syntactic grammar of PENMAN notation (docs/notation.rst) with the    *)
(* robustness extensions of docs/serialization.rst ("Allowed but            *)
(* Unconventional": the empty node, a missing node label after '/', a       *)
(* missing edge target before a role or ')'):                               *)
(*                                                                          *)
(*   Start    <- COMMENT* Node                                              *)
(*   Node     <- '(' ')'  /  '(' SYMBOL ('/' (Atom ALIGNMENT?)?)? Edge* ')'  *)
(*   Edge     <- ROLE ALIGNMENT? (Node / Atom ALIGNMENT? / &ROLE / &')')     *)
(*   Atom     <- SYMBOL / STRING                                            *)
(*                                                                          *)
(* Trees are flat: [top, br, meta] with br the branches in depth-first      *)
(* pre-order, each [d, role, kind, val]: d = depth of the owning node,      *)
(* role = role text as written (alignment suffix included; "/" for the      *)
(* concept), kind = "atom" | "node", val = the atom text (NULL for a        *)
(* missing target) or the nested node's variable (NULL for a nested "()").  *)
(*                                                                          *)
(* On failure the result is [ok |-> FALSE, line, col]: the position of the  *)
(* first token at which the grammar fails, or - when the input runs out -   *)
(* the line of the last token and the column just after it ((0,0) if there  *)
(* was no token at all).                                                    *)
(***************************************************************************)
EXTENDS Lexer

Ty(t, i) == IF i <= Len(t) THEN t[i].type ELSE "EOF"
EOFErr(t) == IF Len(t) = 0 THEN [ok |-> FALSE, line |-> 0, col |-> 0]
             ELSE [ok |-> FALSE, line |-> t[Len(t)].line, col |-> t[Len(t)].col + Len(t[Len(t)].text)]
ErrAt(t, i) == IF i <= Len(t) THEN [ok |-> FALSE, line |-> t[i].line, col |-> t[i].col] ELSE EOFErr(t)
Br(d, role, kind, val) == [d |-> d, role |-> role, kind |-> kind, val |-> val]
AtomTypes == {"SYMBOL", "STRING"}

RECURSIVE PNode(_, _, _), PEdges(_, _, _, _)
\* PNode returns [ok, i (index of the next token), var, br]
PNode(t, i, d) ==
    IF Ty(t, i) # "LPAREN" THEN ErrAt(t, i)
    ELSE IF Ty(t, i + 1) = "EOF" THEN EOFErr(t)
    ELSE IF Ty(t, i + 1) = "RPAREN" THEN [ok |-> TRUE, i |-> i + 2, var |-> NULL, br |-> <<>>]
    ELSE IF Ty(t, i + 1) # "SYMBOL" THEN ErrAt(t, i + 1)
    ELSE LET var == t[i + 1].text
             j0  == i + 2 IN
         IF Ty(t, j0) = "EOF" THEN EOFErr(t)
         ELSE IF Ty(t, j0) = "SLASH" THEN
              IF Ty(t, j0 + 1) = "EOF" THEN EOFErr(t)
              ELSE IF Ty(t, j0 + 1) \in AtomTypes THEN
                   IF Ty(t, j0 + 2) = "EOF" THEN EOFErr(t)
                   ELSE IF Ty(t, j0 + 2) = "ALIGNMENT"
                        THEN PEdges(t, j0 + 3, d, [var |-> var, br |-> <<Br(d, "/", "atom", t[j0 + 1].text \o t[j0 + 2].text)>>])
                        ELSE PEdges(t, j0 + 2, d, [var |-> var, br |-> <<Br(d, "/", "atom", t[j0 + 1].text)>>])
              ELSE PEdges(t, j0 + 1, d, [var |-> var, br |-> <<Br(d, "/", "atom", NULL)>>])
         ELSE PEdges(t, j0, d, [var |-> var, br |-> <<>>])
PEdges(t, i, d, acc) ==
    IF Ty(t, i) = "EOF" THEN EOFErr(t)
    ELSE IF Ty(t, i) = "RPAREN" THEN [ok |-> TRUE, i |-> i + 1, var |-> acc.var, br |-> acc.br]
    ELSE IF Ty(t, i) # "ROLE" THEN ErrAt(t, i)
    ELSE LET hasRA == Ty(t, i + 1) = "ALIGNMENT"
             role  == IF hasRA THEN t[i].text \o t[i + 1].text ELSE t[i].text
             j     == IF hasRA THEN i + 2 ELSE i + 1 IN
         IF Ty(t, j) = "EOF" THEN EOFErr(t)
         ELSE IF Ty(t, j) \in AtomTypes THEN
              IF Ty(t, j + 1) = "EOF" THEN EOFErr(t)
              ELSE IF Ty(t, j + 1) = "ALIGNMENT"
                   THEN PEdges(t, j + 2, d, [acc EXCEPT !.br = Append(@, Br(d, role, "atom", t[j].text \o t[j + 1].text))])
                   ELSE PEdges(t, j + 1, d, [acc EXCEPT !.br = Append(@, Br(d, role, "atom", t[j].text))])
         ELSE IF Ty(t, j) = "LPAREN" THEN
              LET n == PNode(t, j, d + 1) IN
              IF ~n.ok THEN n
              ELSE PEdges(t, n.i, d, [acc EXCEPT !.br = Append(@, Br(d, role, "node", n.var)) \o n.br])
         ELSE IF Ty(t, j) \in {"ROLE", "RPAREN"}
              THEN PEdges(t, j, d, [acc EXCEPT !.br = Append(@, Br(d, role, "atom", NULL))])
         ELSE ErrAt(t, j)

(* ---- metadata comments:  # ::key value ::key2 value2 ---- *)
\* a Python dict as a sequence of <<key, value>>: assignment replaces in place or appends
RECURSIVE DictIdx(_, _, _)
DictIdx(dct, k, i) == IF i > Len(dct) THEN 0 ELSE IF dct[i][1] = k THEN i ELSE DictIdx(dct, k, i + 1)
DictSet(dct, k, v) == LET i == DictIdx(dct, k, 1) IN
                      IF i = 0 THEN Append(dct, <<k, v>>) ELSE [dct EXCEPT ![i] = <<k, v>>]
\* Metadata is a mapping: which key of a comment line is entered first (the dict's iteration order, and with it the order of
\* the "# ::key" lines written later) is stated by no property and no document; judges compare metadata as sets of entries.
MetaMap(m) == {<<m[i][1], m[i][2]>> : i \in DOMAIN m}
SameMeta(a, b) == Len(a) = Len(b) /\ MetaMap(a) = MetaMap(b)
SameTree(a, b) == a.top = b.top /\ a.br = b.br /\ SameMeta(a.meta, b.meta)
SameTrees(a, b) == Len(a) = Len(b) /\ \A i \in DOMAIN a : SameTree(a[i], b[i])
\* one comment text, scanned for "::" from the right, as the documentation of the metadata format implies
\* (a value extends to the next "::" or the end of the line, trailing white space removed)
RECURSIVE MetaOfComment(_, _)
MetaOfComment(c, dct) ==
    IF c = "" THEN dct
    ELSE LET p == LastIndexOf2(c, "::", Len(c) - 1) IN
         IF p = 0 THEN dct
         ELSE LET seg == SubSeq(c, p + 2, Len(c))
                  sp  == IndexOf(seg, " ", 1)
                  key == IF sp = 0 THEN seg ELSE SubSeq(seg, 1, sp - 1)
                  val == IF sp = 0 THEN "" ELSE RStrip(SubSeq(seg, sp + 1, Len(seg)), PyWS)
              IN MetaOfComment(SubSeq(c, 1, p - 1), DictSet(dct, key, val))
RECURSIVE PComments(_, _, _)
\* returns <<index of first non-comment token, metadata>>; white space at the end of a comment line (which includes a
\* CR left over from a CRLF terminator) is not part of the metadata
PComments(t, i, dct) == IF Ty(t, i) = "COMMENT" THEN PComments(t, i + 1, MetaOfComment(RStrip(t[i].text, PyWS), dct)) ELSE <<i, dct>>

\* parse one graph starting at token i:  [ok, i, tree] or an error
ParseAt(t, i) ==
    LET c == PComments(t, i, <<>>) IN
    IF Ty(t, c[1]) = "EOF" THEN EOFErr(t)
    ELSE LET n == PNode(t, c[1], 0) IN
         IF ~n.ok THEN n
         ELSE [ok |-> TRUE, i |-> n.i, tree |-> [top |-> n.var, br |-> n.br, meta |-> c[2]]]
\* penman.parse: the first graph of the token sequence, the rest is ignored
Parse(t) == ParseAt(t, 1)
\* penman.iterparse: keep parsing while the next token is a comment or '('; anything else ends the stream silently.
\* tail: the stream ended in comments that no graph follows (after zero or more complete graphs).  The code raises the
\* end-of-input error there and the specification mirrors it, but the documentation is silent on such comments (the command's
\* guide even says that content which is neither a graph nor a metadata comment is discarded), so judges treat "error at the
\* end" and "the graphs read so far" as equally good answers for these inputs (don't-care zone O3).
RECURSIVE OnlyComments(_, _)
OnlyComments(t, i) == IF i > Len(t) THEN TRUE ELSE IF t[i].type # "COMMENT" THEN FALSE ELSE OnlyComments(t, i + 1)
RECURSIVE ParseAllFrom(_, _, _)
ParseAllFrom(t, i, acc) ==
    IF Ty(t, i) \notin {"COMMENT", "LPAREN"} THEN [ok |-> TRUE, trees |-> acc, tail |-> FALSE]
    ELSE LET r == ParseAt(t, i) IN
         IF ~r.ok THEN [ok |-> FALSE, trees |-> acc, line |-> r.line, col |-> r.col, tail |-> OnlyComments(t, i)]
         ELSE ParseAllFrom(t, r.i, Append(acc, r.tree))
ParseAll(t) == ParseAllFrom(t, 1, <<>>)

(* ---- the grammar once more, declaratively: which spans of the token-type sequence derive a Node ---- *)
\* DerivesNode(t, i, j): tokens i..j-1 are exactly one Node.  Written as a relation over spans, not as a scanner.
RECURSIVE DerivesNode(_, _, _), DerivesEdges(_, _, _)
DerivesEdge1(t, i, j) ==      \* tokens i..j-1 are exactly one Edge, where the token after it is t[j]
    /\ i < j /\ Ty(t, i) = "ROLE"
    /\ LET k == IF Ty(t, i + 1) = "ALIGNMENT" /\ i + 1 < j THEN i + 2 ELSE i + 1 IN
       \/ k = j /\ Ty(t, j) \in {"ROLE", "RPAREN"}                             \* missing target
       \/ k + 1 = j /\ Ty(t, k) \in AtomTypes /\ Ty(t, j) # "ALIGNMENT"        \* atom
       \/ k + 2 = j /\ Ty(t, k) \in AtomTypes /\ Ty(t, k + 1) = "ALIGNMENT"    \* atom with alignment
       \/ DerivesNode(t, k, j)                                                 \* nested node
DerivesEdges(t, i, j) ==      \* tokens i..j-1 are zero or more edges, followed by t[j] = ')'
    \/ i = j
    \/ \E m \in (i + 1)..j : DerivesEdge1(t, i, m) /\ DerivesEdges(t, m, j)
DerivesNode(t, i, j) ==
    /\ j - i >= 2 /\ Ty(t, i) = "LPAREN" /\ Ty(t, j - 1) = "RPAREN"
    /\ \/ j - i = 2
       \/ /\ Ty(t, i + 1) = "SYMBOL"
          /\ \/ DerivesEdges(t, i + 2, j - 1)
             \/ Ty(t, i + 2) = "SLASH" /\
                  ( \/ (Ty(t, i + 3) \notin AtomTypes /\ DerivesEdges(t, i + 3, j - 1))
                    \/ (Ty(t, i + 3) \in AtomTypes /\ i + 3 < j - 1 /\ Ty(t, i + 4) # "ALIGNMENT" /\ DerivesEdges(t, i + 4, j - 1))
                    \/ (Ty(t, i + 3) \in AtomTypes /\ Ty(t, i + 4) = "ALIGNMENT" /\ i + 4 < j - 1 /\ DerivesEdges(t, i + 5, j - 1)) )
\* some prefix of the tokens (after leading comments) derives a Node
RECURSIVE FirstNonComment(_, _)
FirstNonComment(t, i) == IF Ty(t, i) = "COMMENT" THEN FirstNonComment(t, i + 1) ELSE i
AcceptsDeclaratively(t) == LET s == FirstNonComment(t, 1) IN \E j \in (s + 2)..(Len(t) + 1) : DerivesNode(t, s, j)
=============================================================================
