SPECIFICATION Spec
CONSTANT MaxK = 1
INVARIANT Export
CHECK_DEADLOCK FALSE
