SPECIFICATION Spec
CONSTANT MaxFiles = 3
CONSTANT MaxGraphs = 2
INVARIANT ExitIffAnyBad
INVARIANT OnePerGraphInOrder
PROPERTY ExitMonotone
PROPERTY Terminates
CHECK_DEADLOCK FALSE
