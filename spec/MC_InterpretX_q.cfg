SPECIFICATION Spec
CONSTANT MaxBr = 2
CONSTANT MaxDepth = 2
INVARIANT Export
CHECK_DEADLOCK FALSE
