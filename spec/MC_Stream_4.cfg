SPECIFICATION Spec
CONSTANT MaxLen = 4
INVARIANT ContainersAgree
INVARIANT OnlyThreeTerminators
INVARIANT RoundTrip
INVARIANT FileRoundTrip
CHECK_DEADLOCK FALSE
