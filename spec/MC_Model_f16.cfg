SPECIFICATION Spec
CONSTANT MaxK = 2
INVARIANT IdempotentAlways
CHECK_DEADLOCK FALSE
