SPECIFICATION Spec
CONSTANT MaxBr = 4
INVARIANT PerNodePermutation
INVARIANT ConceptStaysFirst
INVARIANT SameGraph
INVARIANT SortedByKey
INVARIANT StableOnTies
INVARIANT NumericSuffixOrder
INVARIANT InvertedLast
INVARIANT Idempotent
CHECK_DEADLOCK FALSE
