------------------------------- MODULE MC_Parser -------------------------------
(* Bounded-exhaustive instance of Parser: every sequence of token types up to   *)
(* MaxLen.  Checks the push-down parser against the declarative derivation      *)
(* relation of the documented grammar, the error-position rule of property C07  *)
(* and structural agreement of the tree with the consumed tokens.               *)
EXTENDS Parser
CONSTANT MaxLen
VARIABLE tys
Types == {"COMMENT", "STRING", "LPAREN", "RPAREN", "SLASH", "ROLE", "SYMBOL", "ALIGNMENT", "UNEXPECTED"}
Rep == [ty \in Types |-> CASE ty = "COMMENT" -> "#c" [] ty = "STRING" -> "\"s\"" [] ty = "LPAREN" -> "(" [] ty = "RPAREN" -> ")"
                          [] ty = "SLASH" -> "/" [] ty = "ROLE" -> ":r" [] ty = "SYMBOL" -> "a" [] ty = "ALIGNMENT" -> "~1"
                          [] ty = "UNEXPECTED" -> "\""]
Init == tys = <<>>
Next == Len(tys) < MaxLen /\ \E ty \in Types : tys' = Append(tys, ty)
Spec == Init /\ [][Next]_tys
\* one token per line so that positions identify tokens: token i is at line i, column 0
Toks(ts) == [i \in DOMAIN ts |-> MkTok(ts[i], Rep[ts[i]], i, 0)]
toks == Toks(tys)
R == Parse(toks)
ErrIdx(r) == IF r.col = 0 THEN r.line ELSE 0      \* index of the offending token, 0 for end of input

AcceptIffDerivable == R.ok <=> AcceptsDeclaratively(toks)
ConsumedSpanDerives == R.ok => DerivesNode(toks, FirstNonComment(toks, 1), R.i)
\* the reported token is the first at which the grammar fails: the tokens before it were a viable
\* prefix (they fail only by running out of input), and the failure does not depend on what follows
ErrorAtFirstFailure ==
    (~R.ok /\ ErrIdx(R) # 0) =>
        LET k == ErrIdx(R) IN
        /\ k \in DOMAIN tys
        /\ LET p == Parse(Toks(SubSeq(tys, 1, k))) IN ~p.ok /\ ErrIdx(p) = k
        /\ LET q == Parse(Toks(SubSeq(tys, 1, k - 1))) IN ~q.ok /\ ErrIdx(q) = 0
EofMeansViable ==
    (~R.ok /\ ErrIdx(R) = 0) =>
        /\ R.line = Len(tys) /\ (Len(tys) = 0 \/ R.col = Len(Rep[tys[Len(tys)]]))
        /\ \E ty \in Types : LET p == Parse(Toks(Append(tys, ty))) IN p.ok \/ ErrIdx(p) # Len(tys) + 1
TreeMatchesTokens ==
    R.ok => LET s == FirstNonComment(toks, 1)
                span == SubSeq(tys, s, R.i - 1)
                Count(ty) == Cardinality({i \in DOMAIN span : span[i] = ty})
            IN /\ Len(R.tree.br) = Count("ROLE") + Count("SLASH")
               /\ Cardinality({i \in DOMAIN R.tree.br : R.tree.br[i].kind = "node"}) = Count("LPAREN") - 1
               /\ \A i \in DOMAIN R.tree.br : R.tree.br[i].d >= 0 /\ (i > 1 => R.tree.br[i].d <= R.tree.br[i - 1].d + 1)
\* iterparse: stops silently at anything that is not a comment or '(' ; graphs are parsed back to back
StreamConsistent ==
    LET all == ParseAll(toks) IN
    /\ (R.ok => Len(all.trees) >= 1 /\ all.trees[1] = R.tree)
    /\ (~R.ok /\ Len(tys) >= 1 /\ tys[1] \in {"COMMENT", "LPAREN"}) => (~all.ok /\ all.trees = <<>> /\ all.line = R.line /\ all.col = R.col)
    /\ (Len(tys) >= 1 /\ tys[1] \notin {"COMMENT", "LPAREN"}) => (all.ok /\ all.trees = <<>>)
=============================================================================
