------------------------------- MODULE Purity -------------------------------
(***************************************************************************)
(* Purity and determinism of the library API (property C17) as a history    *)
(* machine over a pool of shared objects.  Values are abstract terms: an    *)
(* initial object is <<"init", k>>; the result of a call is the term        *)
(* <<op, argument values>>, so "the result depends only on the arguments"   *)
(* is built into the model and the frame conditions are what TLC checks:    *)
(* a pure call leaves every object of the pool unchanged and adds its       *)
(* result; an in-place call changes exactly its target.                     *)
(* The machine also generates the call histories (interleavings of calls on *)
(* shared arguments) that are replayed on the implementation.               *)
(***************************************************************************)
EXTENDS Naturals, Sequences, FiniteSets, TLC, Json
CONSTANT MaxCalls, MaxPool
\* op |-> <<argument types, result type ("" = a plain value that is not pooled), in place?>>
Sig == [interpret |-> <<<<"tree">>, "graph", FALSE>>,
        configure |-> <<<<"graph">>, "tree", FALSE>>,
        reconfigure |-> <<<<"graph">>, "tree", FALSE>>,
        format |-> <<<<"tree">>, "", FALSE>>,
        encode |-> <<<<"graph">>, "", FALSE>>,
        decode_encode |-> <<<<"graph">>, "graph", FALSE>>,
        \* the same through penman.encode / penman.decode with the default model and with the no-op model (equal tables, other behaviour)
        default_roundtrip |-> <<<<"graph">>, "graph", FALSE>>,
        noop_roundtrip |-> <<<<"graph">>, "graph", FALSE>>,
        copy_graph |-> <<<<"graph">>, "graph", FALSE>>,
        relayout |-> <<<<"graph">>, "graph", FALSE>>,
        canonicalize_roles |-> <<<<"tree">>, "tree", FALSE>>,
        reify_edges |-> <<<<"graph">>, "graph", FALSE>>,
        dereify_edges |-> <<<<"graph">>, "graph", FALSE>>,
        reify_attributes |-> <<<<"graph">>, "graph", FALSE>>,
        indicate_branches |-> <<<<"graph">>, "graph", FALSE>>,
        queries |-> <<<<"graph">>, "", FALSE>>,
        errors |-> <<<<"graph">>, "", FALSE>>,
        diagnostics |-> <<<<"graph">>, "", FALSE>>,
        alignments |-> <<<<"graph">>, "", FALSE>>,
        tree_nodes |-> <<<<"tree">>, "", FALSE>>,
        triples |-> <<<<"graph">>, "", FALSE>>,
        union |-> <<<<"graph", "graph">>, "graph", FALSE>>,
        difference |-> <<<<"graph", "graph">>, "graph", FALSE>>,
        union_inplace |-> <<<<"graph", "graph">>, "", TRUE>>,
        difference_inplace |-> <<<<"graph", "graph">>, "", TRUE>>,
        set_top |-> <<<<"graph">>, "", TRUE>>,
        add_marker |-> <<<<"graph">>, "", TRUE>>,       \* the documented way to annotate: g.epidata[triple].append(marker)
        rearrange |-> <<<<"tree">>, "", TRUE>>,
        reset_variables |-> <<<<"tree">>, "", TRUE>>]
Ops == DOMAIN Sig
InPlace(op) == Sig[op][3]
VARIABLES pool, hist
\* pool[i] = [type, val]; hist = sequence of [op, args]
Init == pool = <<[type |-> "tree", val |-> <<"init", 1>>], [type |-> "tree", val |-> <<"init", 2>>],
                 [type |-> "graph", val |-> <<"init", 3>>], [type |-> "graph", val |-> <<"init", 4>>]>>
        /\ hist = <<>>
ArgsOK(op, args) == Len(args) = Len(Sig[op][1]) /\ \A k \in DOMAIN args : args[k] \in DOMAIN pool /\ pool[args[k]].type = Sig[op][1][k]
Term(op, args) == <<op>> \o [k \in DOMAIN args |-> pool[args[k]].val]
Call(op, args) ==
    /\ Len(hist) < MaxCalls /\ ArgsOK(op, args)
    /\ (Sig[op][2] # "" => Len(pool) < MaxPool)
    /\ pool' = IF InPlace(op) THEN [pool EXCEPT ![args[1]].val = Term(op, args)]
               ELSE IF Sig[op][2] # "" THEN Append(pool, [type |-> Sig[op][2], val |-> Term(op, args)])
               ELSE pool
    /\ hist' = Append(hist, [op |-> op, args |-> args])
Next == \E op \in Ops : \E a1 \in DOMAIN pool : \/ Call(op, <<a1>>)
                                               \/ \E a2 \in DOMAIN pool : Call(op, <<a1, a2>>)
Spec == Init /\ [][Next]_<<pool, hist>>
\* Directed histories (a sub-machine of Spec, enumerated completely): an object derived from a graph meets that graph again as
\* the other operand of a binary operation, in both orders, and both are then observed - the shortest histories in which a
\* result that shares structure with its argument, or an operand changed by a "pure" operator, shows.
GraphMakers == {op \in Ops : Sig[op][1] = <<"graph">> /\ Sig[op][2] = "graph" /\ ~InPlace(op)}
Binary == {op \in Ops : Len(Sig[op][1]) = 2}
Observers == {"encode", "queries", "diagnostics", "alignments"}
DNext == \/ Len(hist) = 0 /\ \E op \in GraphMakers, a \in {3, 4} : Call(op, <<a>>)
         \/ Len(hist) = 1 /\ \E op \in Binary : LET a == hist[1].args[1] IN Call(op, <<a, 5>>) \/ Call(op, <<5, a>>)
         \/ Len(hist) = 2 /\ (\/ \E op \in Observers : Call(op, <<hist[1].args[1]>>)
                             \/ \E x \in DOMAIN pool : Call("add_marker", <<x>>))        \* marker lists shared between two objects show here
         \/ Len(hist) = 3 /\ \E op \in Observers : Call(op, <<5>>)
DSpec == Init /\ [][DNext]_<<pool, hist>>
DExport == Len(hist) = 4 => PrintT("X|" \o ToJson([hist |-> hist]))
Last == hist'[Len(hist')]
PureFrame == [][~InPlace(Last.op) => \A i \in DOMAIN pool : pool'[i] = pool[i]]_<<pool, hist>>
InPlaceFrame == [][InPlace(Last.op) => (Len(pool') = Len(pool) /\ \A i \in DOMAIN pool : i # Last.args[1] => pool'[i] = pool[i])]_<<pool, hist>>
\* equal calls on equal argument values give equal results, wherever they occur in a history
FunctionOfArgs == \A i, j \in DOMAIN pool : (pool[i].val[1] \notin {"init"} /\ pool[i].val = pool[j].val) => pool[i].type = pool[j].type
Export == Len(hist) = MaxCalls => PrintT("X|" \o ToJson([hist |-> hist]))
=============================================================================
