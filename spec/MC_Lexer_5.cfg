SPECIFICATION Spec
CONSTANT MaxLen = 5
INVARIANT LinesOK
INVARIANT Tiling
INVARIANT ClassByGrammar
INVARIANT MaximalMunch
INVARIANT ContainersAgree
INVARIANT SuffixLocal
CHECK_DEADLOCK FALSE
