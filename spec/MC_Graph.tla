------------------------------- MODULE MC_Graph -------------------------------
(* Bounded-exhaustive history machine for property C15: the pool starts with any  *)
(* two graphs over a small triple universe (lists up to MaxT triples incl.        *)
(* duplicates, concept = variable, null targets; any explicit top incl. a         *)
(* phantom), histories of up to MaxH operator calls.  hist records the actions    *)
(* for replay on the implementation and is hidden from the state space by VIEW.   *)
EXTENDS Graph
CONSTANTS MaxT, MaxT2, MaxH
VARIABLES pool, hist, last
Srcs == {"a", "b"}
\* roles are given with or without their colon
TripleU == {<<s, r, t>> : s \in Srcs, r \in {":instance", ":r", "r"}, t \in {"a", "x", NULL}}
\* triples written into a list in place (no construction step, so roles are given with their colon)
EditU == {<<s, r, "a">> : s \in Srcs, r \in {":instance", ":r"}} \cup {<<"a", ":r", "x">>}
Lists == UNION {[1..n -> TripleU] : n \in 0..MaxT}
Tops == {NULL, "a", "b", "z"}
Tag(n) == <<Mk("align", ToString(n))>>
NewG(tr, top, n) == MkGraph(tr, top, [i \in DOMAIN tr |-> Tag(n)])
A0 == [op |-> "", i |-> 0, j |-> 0, k |-> 0, top |-> NULL, tr |-> <<>>, xtop |-> NULL]
Init == pool = <<>> /\ hist = <<>> /\ last = "ok"
\* construction phase: the first two objects are any graphs of the universe
New == /\ Len(pool) < 2
       /\ \E t \in Lists, x \in Tops :
            /\ Len(t) <= (IF Len(pool) = 0 THEN MaxT ELSE MaxT2)
            /\ pool' = Append(pool, NewG(t, x, Len(pool) + 1))
            /\ hist' = Append(hist, [A0 EXCEPT !.op = "new", !.tr = t, !.xtop = x])
       /\ last' = "ok"
Acts == {[A0 EXCEPT !.op = o, !.i = i, !.j = j] : o \in {"or", "ior", "sub", "isub"}, i \in 1..4, j \in 1..4}
        \cup {[A0 EXCEPT !.op = "settop", !.i = i, !.top = t] : i \in 1..4, t \in Tops}
        \cup {[A0 EXCEPT !.op = "edit", !.i = i, !.k = k, !.tr = <<t>>] : i \in 1..2, k \in 1..2, t \in EditU}
Do(act) == /\ Len(pool) >= 2 /\ Len(hist) < MaxH + 2 /\ act.i \in DOMAIN pool /\ (act.j = 0 \/ act.j \in DOMAIN pool)
           /\ (act.op \in {"or", "sub"} => Len(pool) < 4)
           /\ LET r == Apply(pool, act) IN pool' = r.pool /\ last' = r.res
           /\ hist' = Append(hist, act)
Next == New \/ \E act \in Acts : Do(act)
Spec == Init /\ [][Next]_<<pool, hist, last>>
View == <<pool, last, Len(hist)>>

RolesHaveColon == \A i \in DOMAIN pool : \A k \in DOMAIN pool[i].tr : StartsWith(pool[i].tr[k][2], ":")
AllPartition == \A i \in DOMAIN pool : Partition(pool[i])
AllImplicitTop == \A i \in DOMAIN pool : ImplicitTop(pool[i])
EdgesAreVariableTargets == \A i \in DOMAIN pool : \A k \in DOMAIN pool[i].tr :
    LET t == pool[i].tr[k] IN InSeq(t, Edges(pool[i], NoFilter)) <=> (t[2] # ConceptRole /\ t[3] \in GVars(pool[i]))
FiltersSelectSubLists == \A i \in DOMAIN pool : \A f \in {<<"a", NULL, NULL>>, <<NULL, ":r", NULL>>, <<NULL, NULL, "b">>, <<"a", ":r", "b">>} :
    /\ IsSubList(Edges(pool[i], f), Edges(pool[i], NoFilter)) /\ IsSubList(Attributes(pool[i], f), Attributes(pool[i], NoFilter))
    /\ \A k \in DOMAIN Edges(pool[i], f) : Match(Edges(pool[i], f)[k], f)
ReentrancyFormula == \A i \in DOMAIN pool : \A p \in Reentrancies(pool[i]) : p[2] >= 1 /\ p[2] = InDegree(pool[i], p[1]) - 1
\* explicit tops are variables of their graph, or phantoms that were there from construction (never introduced by an operator)
TopRefusal == [][\A i \in DOMAIN pool : (i \in DOMAIN pool' /\ pool'[i].xtop # pool[i].xtop /\ pool'[i].xtop # NULL) => pool'[i].xtop \in GVars(pool[i])]_<<pool, hist, last>>
\* non-in-place forms leave every existing object untouched; in-place forms change only their target
OperandsUntouched == [][\A i \in DOMAIN pool :
        LET act == hist'[Len(hist')] IN (i \in DOMAIN pool' /\ (~InPlace(act.op) \/ i # act.i)) => pool'[i] = pool[i]]_<<pool, hist, last>>
\* set algebra
SetAlgebra == [][hist'[Len(hist')].op \in {"new", "settop", "edit"} \/
                 LET act == hist'[Len(hist')]
                     a == pool[act.i]
                     r == IF InPlace(act.op) THEN pool'[act.i] ELSE pool'[Len(pool')]
                 IN /\ act.op \in {"or", "ior"} =>
                        LET b == pool[act.j] IN
                        /\ Range(r.tr) = Range(a.tr) \cup Range(b.tr)
                        /\ SubSeq(r.tr, 1, Len(a.tr)) = a.tr
                        /\ IsSubList(SubSeq(r.tr, Len(a.tr) + 1, Len(r.tr)), b.tr)
                        /\ \A t \in Range(b.tr) \ Range(a.tr) : EpiAt(r, t) = EpiAt(b, t)
                        /\ \A t \in Range(a.tr) \ Range(b.tr) : EpiAt(r, t) = EpiAt(a, t)
                        /\ r.xtop = a.xtop
                    /\ act.op \in {"sub", "isub"} =>
                        LET b == pool[act.j] IN
                        /\ Range(r.tr) = Range(a.tr) \ Range(b.tr)
                        /\ IsSubList(r.tr, a.tr)
                        /\ \A t \in Range(r.tr) : EpiAt(r, t) = EpiAt(a, t)
                        /\ r.xtop \in {a.xtop, NULL}
                        /\ (r.xtop = NULL /\ a.xtop # NULL) <=> (a.xtop # NULL /\ \A k \in DOMAIN r.tr : r.tr[k][1] # a.xtop /\ r.tr[k][3] # a.xtop)
                ]_<<pool, hist, last>>
Export == Len(hist) = MaxH + 2 => PrintT("X|" \o ToJson([acts |-> hist]))
=============================================================================
