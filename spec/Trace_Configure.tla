------------------------------- MODULE Trace_Configure -------------------------------
(***************************************************************************)
(* Step-wise trace validation of configure() against the PlusCal machine     *)
(* of MC_Configure.  The hook in penman/layout.py (guarded by the            *)
(* environment variable PENMAN_VERIF) records the decisions of one           *)
(* execution:                                                                *)
(*   enter(var, |data|) / leave(var, surprising, |data|)  per node context   *)
(*   find(var or none, |data| kept)                        per improvisation  *)
(*   round(|data|, |data| before, surprising)              after each round   *)
(*   end(|skipped|)                                        before the result  *)
(* The trace specification re-runs the machine's own actions (Next of the    *)
(* translation) on the recorded input; the machine is deterministic, so      *)
(* silent steps need no search: a step at an observable label must equal     *)
(* the next recorded event, every other step is internal.  At termination    *)
(* all events must be consumed, the outcome and the tree must agree.         *)
(***************************************************************************)
EXTENDS MC_Configure, IOUtils
Traces == ndJsonDeserialize(IOEnv.TRACE_FILE)
VARIABLES tid, l, bad
tvars == <<vars, tid, l, bad>>
T == Traces[tid]
Ev(e, var, n, n2, s) == [ev |-> e, var |-> var, n |-> n, n2 |-> n2, s |-> s]
TInit == /\ tid \in 1..Len(Traces)
         /\ input = [tr |-> T.tr, epi |-> T.epi, top |-> T.top]
         /\ tree = [top |-> "a", br |-> <<>>, meta |-> <<>>]
         /\ phase = "run" /\ nx = 0 /\ data = <<>> /\ nodes = <<>> /\ nodemap = <<>> /\ skipped = <<>>
         /\ status = "run" /\ ret = FALSE /\ found = <<>> /\ dcount = 0 /\ improvised = FALSE /\ rounds = 0
         /\ v = defaultInitValue /\ surprising = FALSE /\ datum = <<>> /\ role = "" /\ target = "" /\ push = FALSE
         /\ me = 0 /\ child = 0 /\ stack = <<>>
         /\ pc = "m0" /\ l = 1 /\ bad = ""
\* the observable of the step about to be taken (<<>> for an internal step); primed variables are those of the step itself
Expected ==
    CASE pc = "c0" -> Ev("enter", v, Len(data), 0, FALSE)
      [] pc = "c9" -> Ev("leave", v, Len(data), 0, surprising)
      [] pc = "m3" /\ Len(data) > 0 /\ status = "run" ->
            (IF found'[2] = NULL THEN Ev("find", NULL, 0, 0, FALSE) ELSE Ev("find", found'[2], Len(data'), 0, FALSE))
      [] pc = "m4" -> Ev("round", "", Len(data), dcount, ret)
      [] pc = "m6" /\ status = "run" -> Ev("end", "", Len(skipped), 0, FALSE)
      [] OTHER -> <<>>
TNext == /\ Next
         /\ pc # "Done"
         /\ LET x == Expected IN
            IF x = <<>> THEN l' = l /\ bad' = bad
            ELSE /\ l' = l + 1
                 /\ bad' = IF bad # "" THEN bad
                           ELSE IF l > Len(T.events) THEN "the machine takes a step the execution did not record: " \o x.ev \o " (event " \o ToString(l) \o ")"
                           ELSE IF T.events[l] # x THEN "event " \o ToString(l) \o ": machine " \o x.ev \o " " \o ToString(x.var) \o " " \o ToString(x.n)
                                                        \o ", recorded " \o T.events[l].ev \o " " \o ToString(T.events[l].var) \o " " \o ToString(T.events[l].n)
                           ELSE ""
         /\ UNCHANGED tid
TSpec == TInit /\ [][TNext]_tvars
Verdict == IF bad # "" THEN <<"REJECT", bad>>
           ELSE IF l # Len(T.events) + 1 THEN <<"REJECT", "recorded events left over after the machine terminated">>
           ELSE IF (status = "ok") # (T.outcome = "ok") THEN <<"REJECT", "outcome: machine " \o status \o ", execution " \o T.outcome>>
           ELSE IF status = "ok" /\ Flat(nodes, 1, 0) # T.tree.br THEN <<"REJECT", "final tree differs from the machine's">>
           ELSE <<"ACCEPT", "">>
Out == pc = "Done" => PrintT("V|" \o ToString(tid) \o "|" \o Verdict[1] \o "|" \o Verdict[2])
=============================================================================
