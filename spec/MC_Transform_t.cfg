SPECIFICATION Spec
CONSTANT MaxBr = 4
CONSTANT MaxP = 3
INVARIANT SameTop
INVARIANT StaysWellFormed
INVARIANT StaysConnected
INVARIANT MarkersAligned
INVARIANT InverseLaw
INVARIANT NeverCollapsesTopOrShared
PROPERTY AttrClauses
PROPERTY BranchClauses
CHECK_DEADLOCK FALSE
