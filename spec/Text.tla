------------------------------- MODULE Text -------------------------------
(***************************************************************************)
(* Characters, character classes and string helpers shared by every module *)
(* of the penman specification.                                            *)
(*                                                                         *)
(* All text is a TLA+ string.  TLC implements Len, \o and SubSeq on        *)
(* strings, so a character is the 1-character string SubSeq(s, i, i).      *)
(* Characters that TLA+ source cannot spell are read from chars.json.      *)
(* Python's None is the sentinel string NULL.                              *)
(***************************************************************************)
EXTENDS Naturals, Integers, Sequences, FiniteSets, TLC, Json

NULL == "%null"
SC == JsonDeserialize("chars.json")

Ch(s, i) == SubSeq(s, i, i)
Range(s) == {s[i] : i \in DOMAIN s}
Reverse(s) == [i \in 1..Len(s) |-> s[Len(s) + 1 - i]]
EndsWith(s, suf) == Len(s) >= Len(suf) /\ SubSeq(s, Len(s) - Len(suf) + 1, Len(s)) = suf
StartsWith(s, pre) == Len(s) >= Len(pre) /\ SubSeq(s, 1, Len(pre)) = pre
DropLast(s, n) == SubSeq(s, 1, Len(s) - n)
DropFirst(s, n) == SubSeq(s, n + 1, Len(s))

Digits == {"0","1","2","3","4","5","6","7","8","9"}
Lower == {"a","b","c","d","e","f","g","h","i","j","k","l","m","n","o","p","q","r","s","t","u","v","w","x","y","z"}
Upper == {"A","B","C","D","E","F","G","H","I","J","K","L","M","N","O","P","Q","R","S","T","U","V","W","X","Y","Z"}
Letters == Lower \cup Upper

\* the six ASCII blanks: the only characters that separate tokens (docs/notation.rst, NameChar)
Blanks == {" ", SC.tab, SC.cr, SC.lf, SC.vt, SC.ff}
\* characters that cannot occur in a Symbol or Role (NameChar <- ![ \n\t\r\f\v"()/:~] .)
NonName == Blanks \cup {"\"", "(", ")", "/", ":", "~"}
\* what Python's str.strip()/isspace() regards as white space, restricted to the characters of chars.json
PyWS == Blanks \cup {SC.fs, SC.gs, SC.rs, SC.us, SC.nel, SC.nbsp, SC.ls, SC.ps, SC.isp, SC.ogham, SC.ensp}

RECURSIVE IndexOf(_, _, _)
IndexOf(s, c, i) == IF i > Len(s) THEN 0 ELSE IF Ch(s, i) = c THEN i ELSE IndexOf(s, c, i + 1)
RECURSIVE LastIndexOf(_, _, _)
LastIndexOf(s, c, i) == IF i < 1 THEN 0 ELSE IF Ch(s, i) = c THEN i ELSE LastIndexOf(s, c, i - 1)
\* first index >= i at which the two-character string cc starts, 0 if none
RECURSIVE IndexOf2(_, _, _)
IndexOf2(s, cc, i) == IF i + 1 > Len(s) THEN 0 ELSE IF SubSeq(s, i, i + 1) = cc THEN i ELSE IndexOf2(s, cc, i + 1)
RECURSIVE LastIndexOf2(_, _, _)
LastIndexOf2(s, cc, i) == IF i < 1 THEN 0 ELSE IF i + 1 <= Len(s) /\ SubSeq(s, i, i + 1) = cc THEN i ELSE LastIndexOf2(s, cc, i - 1)
RECURSIVE AllIn(_, _, _)
AllIn(s, i, S) == IF i > Len(s) THEN TRUE ELSE Ch(s, i) \in S /\ AllIn(s, i + 1, S)
AllDigits(s, i) == AllIn(s, i, Digits)
RECURSIVE RunNot(_, _, _)
RunNot(s, p, S) == IF p <= Len(s) /\ Ch(s, p) \notin S THEN RunNot(s, p + 1, S) ELSE p
RECURSIVE RunIn(_, _, _)
RunIn(s, p, S) == IF p <= Len(s) /\ Ch(s, p) \in S THEN RunIn(s, p + 1, S) ELSE p
RECURSIVE RStripLen(_, _, _)
RStripLen(s, n, S) == IF n >= 1 /\ Ch(s, n) \in S THEN RStripLen(s, n - 1, S) ELSE n
RStrip(s, S) == SubSeq(s, 1, RStripLen(s, Len(s), S))
RECURSIVE LStripFrom(_, _, _)
LStripFrom(s, i, S) == IF i <= Len(s) /\ Ch(s, i) \in S THEN LStripFrom(s, i + 1, S) ELSE i
LStrip(s, S) == SubSeq(s, LStripFrom(s, 1, S), Len(s))
HasChar(s, c) == IndexOf(s, c, 1) # 0

\* n spaces, cut from a bank built by doubling (deep recursion is slow in TLC)
RECURSIVE Doubled(_, _)
Doubled(s, k) == IF k = 0 THEN s ELSE Doubled(s \o s, k - 1)
SpaceBank == Doubled(" ", 12)                                      \* 4096 spaces
RECURSIVE Spaces(_)
Spaces(n) == IF n <= 0 THEN "" ELSE IF n <= 4096 THEN SubSeq(SpaceBank, 1, n) ELSE SpaceBank \o Spaces(n - 4096)
RECURSIVE JoinWith(_, _, _)
JoinWith(parts, sep, k) == IF k > Len(parts) THEN ""
                           ELSE IF k = Len(parts) THEN parts[k]
                           ELSE parts[k] \o sep \o JoinWith(parts, sep, k + 1)
Join(parts, sep) == JoinWith(parts, sep, 1)

(* ---- an explicit order on strings (TLC has none): printable ASCII by code point ---- *)
Ascii == " !\"#$%&'()*+,-./0123456789:;<=>?@ABCDEFGHIJKLMNOPQRSTUVWXYZ[\\]^_`abcdefghijklmnopqrstuvwxyz{|}~"
AsciiRank == [c \in {Ch(Ascii, i) : i \in 1..Len(Ascii)} |-> CHOOSE i \in 1..Len(Ascii) : Ch(Ascii, i) = c]
Rank(c) == IF c \in DOMAIN AsciiRank THEN AsciiRank[c] ELSE 1000
IsAsciiText(s) == AllIn(s, 1, DOMAIN AsciiRank)
RECURSIVE StrLessFrom(_, _, _)
StrLessFrom(a, b, i) == IF i > Len(a) THEN i <= Len(b)                 \* a proper prefix is smaller
                        ELSE IF i > Len(b) THEN FALSE
                        ELSE IF Ch(a, i) = Ch(b, i) THEN StrLessFrom(a, b, i + 1)
                        ELSE Rank(Ch(a, i)) < Rank(Ch(b, i))
StrLess(a, b) == StrLessFrom(a, b, 1)

DigitVal == [c \in Digits |->
               CASE c = "0" -> 0 [] c = "1" -> 1 [] c = "2" -> 2 [] c = "3" -> 3 [] c = "4" -> 4
                 [] c = "5" -> 5 [] c = "6" -> 6 [] c = "7" -> 7 [] c = "8" -> 8 [] c = "9" -> 9]
RECURSIVE ToNat(_, _, _)
ToNat(s, i, acc) == IF i > Len(s) THEN acc ELSE ToNat(s, i + 1, acc * 10 + DigitVal[Ch(s, i)])
RECURSIVE TrailDigits(_, _)
TrailDigits(s, n) == IF n < Len(s) /\ Ch(s, Len(s) - n) \in Digits THEN TrailDigits(s, n + 1) ELSE n

\* multiset of a sequence, as a function element -> count
BagOf(s) == [x \in Range(s) |-> Cardinality({i \in DOMAIN s : s[i] = x})]
=============================================================================
