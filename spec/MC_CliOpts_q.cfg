SPECIFICATION Spec
CONSTANT FullSpace = FALSE
INVARIANT StageLists
CHECK_DEADLOCK FALSE
