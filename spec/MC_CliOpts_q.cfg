SPECIFICATION Spec
CONSTANT NearOnly = FALSE
CONSTANT FullSpace = FALSE
INVARIANT StageLists
CHECK_DEADLOCK FALSE
