SPECIFICATION Spec
CONSTANT MaxOps = 5
VIEW NoHistory
INVARIANT ReadYourLastWrite
PROPERTY OtherPathUntouched
CHECK_DEADLOCK FALSE
