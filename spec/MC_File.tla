------------------------------- MODULE MC_File -------------------------------
(***************************************************************************)
(* A file as the library uses it (dump / load by path, docs/api/penman.rst):*)
(* a path either does not exist or holds a text.  dump(graphs, path)        *)
(* replaces whatever the path held - also when the list is empty, and when  *)
(* the path did not exist - and load(path) reads the graphs back; another   *)
(* path is not touched.  The machine generates the histories of dumps and   *)
(* loads on two paths that are replayed on real files (J_Stream, kind       *)
(* "filehist"); its invariant is the read-your-last-write law of C09.       *)
(***************************************************************************)
EXTENDS Stream
CONSTANT MaxOps
VARIABLES file, last, hist
NoFile == "%nofile"
Pool == << [top |-> "a", br |-> <<[d |-> 0, role |-> "/", kind |-> "atom", val |-> "x"]>>, meta |-> <<<<"id", "1">>>>],
           [top |-> "b", br |-> <<[d |-> 0, role |-> ":r", kind |-> "node", val |-> "c"], [d |-> 1, role |-> "/", kind |-> "atom", val |-> "\"s (t)\""]>>,
            meta |-> <<<<"snt", "x; (y) \"z\" # w">>, <<"k", "">>>>],
           [top |-> "d", br |-> <<[d |-> 0, role |-> "/", kind |-> "atom", val |-> "dog"], [d |-> 0, role |-> ":quant", kind |-> "atom", val |-> "0"]>>, meta |-> <<>>] >>
Seqs == UNION {[1..n -> DOMAIN Pool] : n \in 0..2}         \* a dump writes 0, 1 or 2 graphs (indices into the pool)
Paths == {1, 2}
TreesOf(seq) == [i \in DOMAIN seq |-> Pool[seq[i]]]
\* what dump writes: the graphs separated by a blank line, a newline after the last; nothing for no graphs
Written(seq) == IF seq = <<>> THEN "" ELSE Dumps(TreesOf(seq), 0 - 1, FALSE, "blank") \o SC.lf
Init == file = [p \in Paths |-> NoFile] /\ last = [p \in Paths |-> <<>>] /\ hist = <<>>
Dump(p, seq) == /\ Len(hist) < MaxOps
                /\ file' = [file EXCEPT ![p] = Written(seq)]
                /\ last' = [last EXCEPT ![p] = seq]
                /\ hist' = Append(hist, [op |-> "dump", path |-> p, texts |-> [i \in DOMAIN seq |-> Fmt(Pool[seq[i]], 0 - 1, FALSE)]])
Load(p) == /\ Len(hist) < MaxOps /\ file[p] # NoFile
           /\ hist' = Append(hist, [op |-> "load", path |-> p, texts |-> <<>>])
           /\ UNCHANGED <<file, last>>
Next == \E p \in Paths : Load(p) \/ \E seq \in Seqs : Dump(p, seq)
Spec == Init /\ [][Next]_<<file, last, hist>>
\* read your last write: what a path holds reads back as the graphs of the last dump to it, whatever it held before
ReadYourLastWrite == \A p \in Paths : file[p] # NoFile =>
                        LET o == Outcome(file[p], "file") IN o.ok /\ o.trees = TreesOf(last[p])
\* a dump to one path leaves the other alone
OtherPathUntouched == [][\A p \in Paths : (hist' # hist /\ hist'[Len(hist')].path # p) => file'[p] = file[p]]_<<file, last, hist>>
\* the law does not depend on how the state was reached: for checking it the history is hidden
NoHistory == <<file, last, Len(hist)>>
Export == Len(hist) = MaxOps => PrintT("X|" \o ToJson([hist |-> hist]))
=============================================================================
