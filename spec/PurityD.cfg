SPECIFICATION DSpec
CONSTANT MaxCalls = 4
CONSTANT MaxPool = 7
INVARIANT DExport
INVARIANT FunctionOfArgs
PROPERTY PureFrame
PROPERTY InPlaceFrame
CHECK_DEADLOCK FALSE
