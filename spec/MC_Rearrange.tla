------------------------------- MODULE MC_Rearrange -------------------------------
(* Bounded-exhaustive instance for the rearrange clauses of property C05: every     *)
(* tree up to MaxBr branches over roles with numeric suffixes, inverted roles and    *)
(* attribute / edge targets, every key, with and without attributes-first.          *)
EXTENDS Layout
CONSTANTS MaxBr
VARIABLES tree, phase, key, af, out
NVars == {"a", "b"}
RoleTexts == {":op2", ":op10", ":ARG1-of", ":ARG0", ":op1"}
AtomTexts == {"x", "a", NULL}
Keys == {"none", "original", "alphanumeric", "canonical", "inverted-last"}
M == Models["default"]
MaxD(t) == IF Len(t.br) = 0 THEN 0 ELSE LET l == t.br[Len(t.br)] IN IF l.kind = "node" THEN l.d + 1 ELSE l.d
ConceptSlot(t, d) == IF Len(t.br) = 0 THEN d = 0 ELSE LET l == t.br[Len(t.br)] IN l.kind = "node" /\ d = l.d + 1
Br(d, role, kind, val) == [d |-> d, role |-> role, kind |-> kind, val |-> val]
Init == tree = [top |-> "a", br |-> <<>>, meta |-> <<>>] /\ phase = "build" /\ key = "" /\ af = FALSE /\ out = <<>>
Grow(t2) == phase = "build" /\ Len(tree.br) < MaxBr /\ tree' = t2 /\ UNCHANGED <<phase, key, af, out>>
Sort == phase = "build" /\ \E k \in Keys, f \in BOOLEAN :
           key' = k /\ af' = f /\ out' = Rearrange(tree, M, k, f) /\ phase' = "sorted" /\ UNCHANGED tree
Again == phase = "sorted" /\ phase' = "again" /\ out' = Rearrange(out, M, key, af) /\ UNCHANGED <<tree, key, af>>
Next == \/ \E d \in 0..MaxD(tree) : ConceptSlot(tree, d) /\ Grow([tree EXCEPT !.br = Append(@, Br(d, "/", "atom", "c"))])
        \/ \E d \in 0..MaxD(tree), r \in RoleTexts, a \in AtomTexts : Grow([tree EXCEPT !.br = Append(@, Br(d, r, "atom", a))])
        \/ \E d \in 0..MaxD(tree), r \in RoleTexts : d < 1 /\ "b" \notin NodeVars(tree) /\ Grow([tree EXCEPT !.br = Append(@, Br(d, r, "node", "b"))])
        \/ Sort \/ Again
Spec == Init /\ [][Next]_<<tree, phase, key, af, out>>
S == phase = "sorted"
PerNodePermutation == S => NodeBags(out) = NodeBags(tree) /\ Len(out.br) = Len(tree.br)
ConceptStaysFirst == S => ConceptsFirst(out)
SameGraph == S => BagOf(Interpret(out, M).tr) = BagOf(Interpret(tree, M).tr) /\ out.top = tree.top
\* sorted by the key within every node: adjacent sibling blocks are in non-decreasing key order; equal keys keep their order
Blocks(t, k, d) == OwnBlocks(t, k, d)
KeyOfBlock(b) == <<KB(af /\ b[1].val \in (IF af THEN NodeVars(tree) ELSE {}))>> \o KeyOf(M, key, b[1].role)
SortedAt(t, k, d) == LET bs == Blocks(t, k, d)
                         rest == IF Len(bs) >= 1 /\ bs[1][1].role = "/" THEN SubSeq(bs, 2, Len(bs)) ELSE bs
                     IN \A i \in 1..(Len(rest) - 1) : ~KeyLess(KeyOfBlock(rest[i + 1]), KeyOfBlock(rest[i]))
SortedByKey == S => SortedAt(out, 1, 0) /\ \A k \in DOMAIN out.br : out.br[k].kind = "node" => SortedAt(out, k + 1, out.br[k].d + 1)
\* stability: for the keys that do not distinguish branches nothing moves
StableOnTies == S /\ key \in {"none", "original"} /\ ~af => out = tree
NumericSuffixOrder == S /\ key = "alphanumeric" /\ ~af =>
    \A i, j \in DOMAIN out.br : (out.br[i].d = 0 /\ out.br[j].d = 0 /\ out.br[i].role = ":op2" /\ out.br[j].role = ":op10") => i < j
InvertedLast == S /\ key = "canonical" /\ ~af =>
    \A i, j \in DOMAIN out.br : (out.br[i].d = 0 /\ out.br[j].d = 0 /\ out.br[i].role = ":ARG1-of" /\ out.br[j].role \in {":op2", ":ARG0"}) => j < i
Idempotent == phase = "again" => out = Rearrange(tree, M, key, af)
=============================================================================
