------------------------------- MODULE J_Model -------------------------------
(* Trace judge for the role algebra (C13) and model checking of graphs (C16:   *)
(* Model.errors).                                                               *)
EXTENDS Interpret, IOUtils
Traces == ndJsonDeserialize(IOEnv.TRACE_FILE)
VARIABLES tid, step, ra, verdict
vars == <<tid, step, ra, verdict>>
T == Traces[tid]
M == IF T.model = "custom" THEN MkModel(T.mdl) ELSE Models[T.model]
Acc == <<"ACCEPT", "">>
Rej(clause) == <<"REJECT", clause>>
NA(why) == <<"NA", why>>
Known(what) == <<"KNOWN", what>>
RECURSIVE FirstFail(_, _)
FirstFail(cs, i) == IF i > Len(cs) THEN Acc ELSE IF cs[i][2] THEN FirstFail(cs, i + 1) ELSE Rej(cs[i][1])
InZone(r) == ~(~Defined(M, r) /\ Defined(M, r \o "-of"))

(* ---------------- kind = "roles" ---------------- *)
\* T: role, given: {inv, invd, invd2, inv_of_invd, has}, canon, canon2, can: {same fields as given, for canon},
\*    src, tgt (the ends of the triple, each <<written form, Python type>>: variables, strings, numbers, None),
\*    tinv (invert of (src, canon, tgt)), tdeinv (deinvert of it), tcanon (canonicalize of (src, role, tgt))
RolesA == [c |-> EnsureColon(T.role), canon |-> CanonRole(M, T.role), pre |-> PreNorm(M, T.role)]
FnEq(x, rec) == /\ rec.inv = IsInverted(M, x) /\ rec.invd = InvertRole(M, x) /\ rec.has = HasRole(M, x)
                /\ rec.invd2 = InvertRole(M, InvertRole(M, x)) /\ rec.inv_of_invd = IsInverted(M, InvertRole(M, x))
RolesV(a) ==
    IF T.exc # "" THEN Rej("raised " \o T.exc)
    ELSE IF ~InZone(a.c) \/ ~InZone(a.pre) THEN NA("undefined role whose inversion the model defines (O1)")
    ELSE LET v == FirstFail(<<
            <<"canonical-form", T.canon = a.canon>>,
            <<"adds-colon-before-normalising", StartsWith(T.canon, ":") \/ NormOf(M, a.pre) # a.pre>>,
            <<"defined-role-never-inverted", (Defined(M, T.role) => ~T.given.inv) /\ (Defined(M, T.canon) => ~T.can.inv)>>,
            <<"role-functions-on-given-role", FnEq(T.role, T.given)>>,
            <<"role-functions-on-canonical-role", FnEq(T.canon, T.can)>>,
            <<"inversion-is-an-involution-on-canonical-roles",
                (T.canon2 = T.canon /\ InZone(T.canon) /\ InZone(T.can.invd)) => T.can.invd2 = T.canon>>,
            <<"inversion-flips-invertedness",
                (T.canon2 = T.canon /\ InZone(T.canon) /\ InZone(T.can.invd)) => T.can.inv_of_invd = ~T.can.inv>>,
            <<"invert-swaps-source-and-target", T.tinv = <<T.tgt, T.can.invd, T.src>>>>,
            <<"deinvert", T.tdeinv = (IF M.noop THEN <<T.src, T.canon, T.tgt>> ELSE IF T.can.inv THEN T.tinv ELSE <<T.src, T.canon, T.tgt>>)>>,
            <<"canonicalize-triple-keeps-ends", T.tcanon = <<T.src, T.canon, T.tgt>>>> >>, 1)
         IN IF v # Acc THEN
                 \* a canonical role that is not inversion-canonical can only come from a normalisation table that is not closed
                 (IF ~ClosedTable(M) /\ v[2] \in {"inversion-is-an-involution-on-canonical-roles", "inversion-flips-invertedness"}
                  THEN Known("F16 normalisation table not closed") ELSE v)
            ELSE IF T.canon2 # T.canon THEN
                 (IF ~ClosedTable(M) THEN Known("F16 normalisation table not closed") ELSE Rej("idempotent"))
            ELSE Acc

(* ---------------- kind = "canontree" ---------------- *)
\* T: tree, out (tree), out2 (tree), exc
CanonRoleText(text) == LET sr == SplitRole(text) IN
                       IF sr[1] = "/" THEN text
                       ELSE CanonRole(M, sr[1]) \o (IF HasChar(text, "~") THEN "~" \o sr[2] ELSE "")
CanA == [t |-> [T.tree EXCEPT !.br = [k \in DOMAIN T.tree.br |-> [T.tree.br[k] EXCEPT !.role = CanonRoleText(@)]]],
         zone |-> \A k \in DOMAIN T.tree.br : LET r == SplitRole(T.tree.br[k].role)[1] IN
                      r = "/" \/ (InZone(EnsureColon(r)) /\ InZone(PreNorm(M, r)))]
CanV(a) ==
    IF T.exc # "" THEN Rej("raised " \o T.exc)
    ELSE IF ~a.zone THEN NA("undefined role whose inversion the model defines (O1)")
    ELSE LET v == FirstFail(<<
            <<"shape-targets-alignments-unchanged",
                /\ T.out.top = T.tree.top /\ T.out.meta = T.tree.meta /\ Len(T.out.br) = Len(T.tree.br)
                /\ \A k \in DOMAIN T.tree.br :
                     /\ T.out.br[k].d = T.tree.br[k].d /\ T.out.br[k].kind = T.tree.br[k].kind /\ T.out.br[k].val = T.tree.br[k].val
                     /\ SplitRole(T.out.br[k].role)[2] = SplitRole(T.tree.br[k].role)[2]>>,
            <<"roles-canonical", T.out = a.t>> >>, 1)
         IN IF v # Acc THEN v
            ELSE IF T.out2 # T.out THEN (IF ~ClosedTable(M) THEN Known("F16 normalisation table not closed") ELSE Rej("idempotent"))
            ELSE Acc

(* ---------------- kind = "errors" (C16) ---------------- *)
\* T: g (tr, top = effective top, xtop), errs: sequence of <<context triple or <<>> for the general context, messages>>,
\*    decoded (the graph was decoded from a text with a non-empty top node)
Gx == [top |-> T.g.top, tr |-> T.g.tr]
SrcSet == {T.g.tr[i][1] : i \in DOMAIN T.g.tr}
\* weak connectivity over source variables, from the top
ErrAdj(v) == {T.g.tr[i][3] : i \in {j \in DOMAIN T.g.tr : T.g.tr[j][1] = v /\ T.g.tr[j][3] \in SrcSet}}
             \cup {T.g.tr[i][1] : i \in {j \in DOMAIN T.g.tr : T.g.tr[j][3] = v}}
RECURSIVE ErrReach(_, _)
ErrReach(seen, fr) == IF fr = {} THEN seen ELSE LET nxt == (UNION {ErrAdj(v) : v \in fr}) \ seen IN ErrReach(seen \cup nxt, nxt)
ErrA ==
    LET empty == Len(T.g.tr) = 0
        topunset == ~empty /\ (T.g.top = NULL \/ T.g.top = "")
        topbad == ~empty /\ ~topunset /\ T.g.top \notin SrcSet
        reach == IF empty \/ topunset \/ topbad THEN SrcSet ELSE ErrReach({T.g.top}, {T.g.top})
    IN [general |-> (IF empty THEN {"graph is empty"} ELSE {}) \cup (IF topunset THEN {"top is not set"} ELSE {})
                    \cup (IF topbad THEN {"top is not a variable in the graph"} ELSE {}),
        \* per distinct triple: the set of messages
        per |-> [t \in Range(T.g.tr) |-> (IF ~HasRole(M, t[2]) THEN {"invalid role"} ELSE {})
                                           \cup (IF t[1] \notin reach THEN {"unreachable"} ELSE {})]]
LoggedGeneral == UNION {Range(T.errs[i][2]) : i \in {j \in DOMAIN T.errs : T.errs[j][1] = <<>>}}
LoggedFor(t) == UNION {Range(T.errs[i][2]) : i \in {j \in DOMAIN T.errs : T.errs[j][1] = t}}
ErrV(a) ==
    IF T.exc # "" THEN Rej("raised " \o T.exc)
    ELSE FirstFail(<<
        <<"empty-and-top-messages", LoggedGeneral = a.general>>,
        <<"invalid-role-exactly-for-undefined-roles",
            \A t \in Range(T.g.tr) : ("invalid role" \in LoggedFor(t)) <=> ("invalid role" \in a.per[t])>>,
        <<"unreachable-exactly-for-disconnected-sources",
            \A t \in Range(T.g.tr) : ("unreachable" \in LoggedFor(t)) <=> ("unreachable" \in a.per[t])>>,
        <<"no-other-contexts-or-messages",
            /\ \A i \in DOMAIN T.errs : T.errs[i][1] = <<>> \/ T.errs[i][1] \in Range(T.g.tr)
            /\ \A i \in DOMAIN T.errs : Range(T.errs[i][2]) \subseteq {"invalid role", "unreachable", "graph is empty", "top is not set", "top is not a variable in the graph"}
            /\ \A i \in DOMAIN T.errs : Len(T.errs[i][2]) >= 1>>,
        <<"decoded-graphs-only-get-role-errors",
            T.decoded => (a.general = {} /\ \A t \in Range(T.g.tr) : "unreachable" \notin LoggedFor(t))>> >>, 1)

A == CASE T.kind = "roles" -> RolesA [] T.kind = "canontree" -> CanA [] T.kind = "errors" -> ErrA
V == CASE T.kind = "roles" -> RolesV(ra) [] T.kind = "canontree" -> CanV(ra) [] T.kind = "errors" -> ErrV(ra)
Init == tid \in 1..Len(Traces) /\ step = 0 /\ ra = 0 /\ verdict = <<"pending", "">>
Compute1 == step = 0 /\ step' = 1 /\ ra' = A /\ UNCHANGED <<tid, verdict>>
Judge == step = 1 /\ step' = 2 /\ verdict' = V /\ UNCHANGED <<tid, ra>>
Next == Compute1 \/ Judge
Spec == Init /\ [][Next]_vars
Out == step = 2 => PrintT("V|" \o ToString(tid) \o "|" \o verdict[1] \o "|" \o verdict[2])
=============================================================================
