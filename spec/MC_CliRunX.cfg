SPECIFICATION Spec
CONSTANT MaxFiles = 3
CONSTANT MaxGraphs = 2
INVARIANT Export
CHECK_DEADLOCK FALSE
