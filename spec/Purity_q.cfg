SPECIFICATION Spec
CONSTANT MaxCalls = 3
CONSTANT MaxPool = 6
INVARIANT FunctionOfArgs
PROPERTY PureFrame
PROPERTY InPlaceFrame
CHECK_DEADLOCK FALSE
