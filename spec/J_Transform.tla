------------------------------- MODULE J_Transform -------------------------------
(* Trace judge for graph transformations: programs of transformations (C12) and   *)
(* reification / dereification as mutually inverse operations (C11).              *)
EXTENDS Transform, Formatter, IOUtils
Traces == ndJsonDeserialize(IOEnv.TRACE_FILE)
VARIABLES tid, k, verdict, exact
vars == <<tid, k, verdict, exact>>
T == Traces[tid]
M == IF T.model = "custom" THEN MkModel(T.mdl) ELSE Models[T.model]
Acc == <<"ACCEPT", "">>
RECURSIVE FirstFailS(_, _)
FirstFailS(cs, i) == IF i > Len(cs) THEN "" ELSE IF cs[i][2] THEN FirstFailS(cs, i + 1) ELSE cs[i][1]
\* logged graph -> [top, tr, epi]
LG(lg) == [top |-> lg.top, tr |-> lg.tr, epi |-> lg.epi]
Expressible(g) == \A i \in DOMAIN g.tr :
                     /\ g.tr[i][1] # NULL /\ OneTok(g.tr[i][1], {"SYMBOL"}) /\ OneTok(g.tr[i][2], {"ROLE"})
                     /\ (g.tr[i][3] = NULL \/ g.tr[i][3] = "" \/ OneTok(g.tr[i][3], AtomTypes))
RolesInvertible(g) == \A i \in DOMAIN g.tr : g.tr[i][2] = ConceptRole \/ InvertRole(M, InvertRole(M, g.tr[i][2])) = g.tr[i][2]
GoodStart(g) == /\ Len(g.tr) > 0 /\ WellFormedGraph(g) /\ g.top \in Sources(g) /\ Connected(g, g.top)
                /\ Expressible(g) /\ RolesInvertible(g)
                /\ \A i \in DOMAIN g.tr : g.tr[i][2] # TopRole
                \* O14: at most one role of an ambiguous reification (AMR :subset / :superset share include-91 with mirrored
                \* arguments, so (a :subset b) and (b :superset a) state one relation twice and coincide after reify + dereify)
                /\ Cardinality({r \in {g.tr[i][2] : i \in DOMAIN g.tr} : Reifiable(M, r) /\ ~Unambiguous(M, {r})}) <= 1
                \* O15: no relation stated twice, once directly and once as a collapsible reified node (dereifying would repeat it)
                /\ LET d == DereifyEdges(g, M).tr IN \A i, j \in DOMAIN d : i # j => d[i] # d[j]
\* encode of a logged graph: tree, re-parse, re-decode
EncOK(g, e) ==
    IF ~e.ok THEN "encode-raised " \o e.exc
    ELSE LET h == Interpret(e.tree, M) IN
         FirstFailS(<<
            <<"encodes-with-the-same-top", h.top = g.top>>,
            <<"encodes-to-itself", BagOf(Canon(h, M)) = BagOf(Canon(g, M)) /\ Vars(h) = Sources(g)>>,
            <<"encoded-text-reparses", e.re.ok /\ e.re.tree = Norm(e.tree)>>,
            <<"decodes-to-itself", e.g2.top = h.top /\ e.g2.tr = h.tr>> >>, 1)

(* ---------------- kind = "program" (C12): one trace-spec step per transformation ---------------- *)
\* T: g0, ops, steps: [{op, ok, exc, g, enc}]
PrevG(i) == IF i = 1 THEN LG(T.g0) ELSE LG(T.steps[i - 1].g)
StepBad(i) ==
    LET S == T.steps[i]  p == PrevG(i) IN
    IF ~S.ok THEN "transformation-raised " \o S.exc
    ELSE LET g == LG(S.g)
             newv == Vars(g) \ Vars(p)
             general == FirstFailS(<<
                <<"same-top", g.top = T.g0.top>>,
                <<"well-formed", WellFormedGraph(g)>>,
                <<"connected", Connected(g, g.top)>>,
                <<"argument-unchanged", S.unchanged>> >>, 1)
         IN IF general # "" THEN general
            ELSE LET e == EncOK(g, S.enc) IN
                 IF e # "" THEN e
                 ELSE IF S.op = "reify_attributes" THEN
                      FirstFailS(<<
                        <<"no-attribute-left", NoAttributes(g)>>,
                        <<"contracting-new-nodes-gives-original", ContractAttrs(g, newv) = p.tr>> >>, 1)
                 ELSE IF S.op = "indicate_branches" THEN
                      FirstFailS(<<
                        <<"one-top-triple-per-nested-node",
                            Len(SelectSeq(g.tr, LAMBDA t : t[2] = TopRole)) = Cardinality({q \in DOMAIN p.tr : FirstPush(p.epi[q], 1) # NULL /\ FirstPush(p.epi[q], 1) \in {p.tr[q][1], p.tr[q][3]}})>>,
                        <<"removing-top-triples-gives-original", WithoutTop(g) = p.tr>> >>, 1)
                 ELSE ""
StepExact(i) == LET S == T.steps[i] IN S.ok /\ LG(S.g) = Step(PrevG(i), M, S.op)

(* ---------------- kind = "inverse" (C11) ---------------- *)
\* T: g, g1 (reified), g2 (dereified again), text0, text2, exc
InvPre == LET g == LG(T.g) IN
          /\ GoodStart(g)
          /\ DereifyEdges(g, M).tr = g.tr                                        \* no collapsible reified node to begin with
          /\ Unambiguous(M, {g.tr[i][2] : i \in DOMAIN g.tr})
InvBad ==
    IF T.exc # "" THEN "raised " \o T.exc
    ELSE LET g == LG(T.g)  g1 == LG(T.g1)  g2 == LG(T.g2)
             nre == Cardinality({i \in DOMAIN g.tr : Reifiable(M, g.tr[i][2])})
             syms == Sources(g) \cup {g.tr[i][3] : i \in DOMAIN g.tr}
             newv == Vars(g1) \ Vars(g)
         IN FirstFailS(<<
            <<"no-reifiable-role-left", \A i \in DOMAIN g1.tr : ~Reifiable(M, g1.tr[i][2])>>,
            <<"only-fresh-variables", newv \cap syms = {} /\ Cardinality(newv) = nre>>,
            <<"top-kept", g1.top = g.top /\ g2.top = g.top>>,
            <<"other-triples-kept", Len(g1.tr) = Len(g.tr) + 2 * nre /\
                SelectSeq(g1.tr, LAMBDA t : t[1] \notin newv) = SelectSeq(g.tr, LAMBDA t : ~Reifiable(M, t[2]))>>,
            <<"dereify-restores-the-graph", g2.tr = g.tr>>,
            <<"identical-encoded-text", T.text2 = T.text0>> >>, 1)

InSeq(t, s) == \E i \in DOMAIN s : s[i] = t
(* ---------------- kind = "dereify" (C11, last clause) ---------------- *)
\* T: g, out, exc: a node is collapsed only if it is not the top, not referenced, and has exactly two other relations
DerBad ==
    IF T.exc # "" THEN "raised " \o T.exc
    ELSE LET g == LG(T.g)  h == LG(T.out)
             gone == Sources(g) \ Sources(h)
         IN FirstFailS(<<
            <<"never-collapses-the-top", g.top \notin gone>>,
            <<"never-collapses-a-referenced-node", \A v \in gone : \A i \in DOMAIN g.tr : g.tr[i][2] = ConceptRole \/ g.tr[i][3] # v>>,
            <<"never-collapses-a-node-with-another-relation", \A v \in gone : Len(Others(g, v)) = 2>>,
            <<"only-dereifiable-concepts", \A v \in gone : InstIdx(g, v) # 0 /\ Dereifiable(M, g.tr[InstIdx(g, v)][3])>>,
            \* a node is a reification only if its two relations are the argument roles the table pairs with its concept
            <<"collapses-only-what-the-table-describes", gone \subseteq (Sources(g) \ Sources(DereifyEdges(g, M)))>>,
            <<"other-triples-kept", SelectSeq(g.tr, LAMBDA t : t[1] \notin gone) = SelectSeq(h.tr, LAMBDA t : InSeq(t, g.tr))>>,
            <<"one-triple-per-collapsed-node", Len(h.tr) = Len(g.tr) - 2 * Cardinality(gone)>> >>, 1)
Init == tid \in 1..Len(Traces) /\ k = 0 /\ verdict = <<"pending", "">> /\ exact = TRUE
Start == /\ k = 0 /\ verdict[1] = "pending"
         /\ IF T.kind = "program"
            THEN (IF ~GoodStart(LG(T.g0)) THEN verdict' = <<"NA", "start graph not well-formed / connected / expressible">> /\ k' = k
                  ELSE IF Len(T.steps) = 0 THEN verdict' = Acc /\ k' = k
                  ELSE verdict' = verdict /\ k' = 1)
            ELSE IF T.kind = "inverse"
            THEN (IF ~InvPre THEN verdict' = <<"NA", "collapsible node present, ambiguous table or start not well-formed">>
                  ELSE IF InvBad # "" THEN verdict' = <<"REJECT", InvBad>> ELSE verdict' = Acc) /\ k' = k
            ELSE (IF ~WellFormedGraph(LG(T.g)) \/ (LET d == DereifyEdges(LG(T.g), M).tr IN \E i, j \in DOMAIN d : i # j /\ d[i] = d[j])
                  THEN verdict' = <<"NA", "graph not well-formed, or a relation is stated both directly and reified (O15)">>
                  ELSE IF DerBad # "" THEN verdict' = <<"REJECT", DerBad>> ELSE verdict' = Acc) /\ k' = k
         /\ UNCHANGED <<tid, exact>>
Prog == /\ k >= 1 /\ verdict[1] = "pending"
        /\ LET b == StepBad(k)  x == exact /\ StepExact(k) IN
           /\ exact' = x
           /\ IF b # "" THEN verdict' = <<"REJECT", b \o " @ step " \o ToString(k) \o " " \o T.steps[k].op>> /\ k' = k
              ELSE IF k = Len(T.steps) THEN verdict' = (IF x THEN Acc ELSE <<"DRIFT", "result differs from the specification's transformation (markers or order)">>) /\ k' = k
              ELSE verdict' = verdict /\ k' = k + 1
        /\ UNCHANGED tid
Next == Start \/ Prog
Spec == Init /\ [][Next]_vars
Out == verdict[1] # "pending" => PrintT("V|" \o ToString(tid) \o "|" \o verdict[1] \o "|" \o verdict[2])
=============================================================================
