SPECIFICATION TSpec
CONSTANT GUARD = TRUE
CONSTANT MAXX = 0
CONSTANT MODE = "corrupt"
CONSTANT defaultInitValue = defaultInitValue
INVARIANT Out
CHECK_DEADLOCK FALSE
