SPECIFICATION Spec
CONSTANT MaxCalls = 10
CONSTANT MaxPool = 9
INVARIANT Export
CHECK_DEADLOCK FALSE
