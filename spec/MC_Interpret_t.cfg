SPECIFICATION Spec
CONSTANT MaxBr = 4
CONSTANT MaxDepth = 3
INVARIANT TripleCount
INVARIANT NullConceptFirst
INVARIANT SourcesAreNodes
INVARIANT NoAlignmentInTriples
INVARIANT StringContentKept
INVARIANT Deinversion
INVARIANT MarkerCounts
INVARIANT MarkersReplayWalk
INVARIANT PushedIsOpened
INVARIANT InvertedIffWritten
CHECK_DEADLOCK FALSE
