------------------------------- MODULE Transform -------------------------------
(***************************************************************************)
(* Graph transformations (docs/api/penman.transform.rst, docs/command.rst): *)
(* reify edges, dereify edges, reify attributes, indicate branches.         *)
(* Graphs are [top, tr, epi] with epi[i] the marker list of tr[i]; lookups  *)
(* by triple value take the first occurrence.  Each transformation is a     *)
(* function of the graph and the model; the program machine of property     *)
(* C12 composes them.                                                       *)
(***************************************************************************)
EXTENDS Layout

RECURSIVE Fresh(_, _)
Fresh(vars, i) == LET v == IF i = 1 THEN "_" ELSE "_" \o ToString(i) IN IF v \in vars THEN Fresh(vars, i + 1) ELSE v
SelectM(e, kinds) == SelectSeq(e, LAMBDA x : x.m \in kinds)
RECURSIVE LastPush(_, _)
LastPush(e, k) == IF k < 1 THEN <<>> ELSE IF e[k].m = "push" THEN <<e[k]>> ELSE LastPush(e, k - 1)
ToAlign(e) == [k \in DOMAIN e |-> Mk("align", e[k].v)]
G3(top, tr, epi) == [top |-> top, tr |-> tr, epi |-> epi]

(* ---- reify edges: three triples per reifiable triple, in/out swapped when the original appears inverted ---- *)
RECURSIVE ReifyE(_, _, _, _, _, _)
ReifyE(g, m, i, vars, tr, epi) ==
    IF i > Len(g.tr) THEN G3(g.top, tr, epi)
    ELSE LET t == g.tr[i] IN
         IF Reifiable(m, t[2]) THEN
            LET rf == ReifOf(m, t[2])
                v == Fresh(vars, 1)
                inT0 == <<v, rf[2], t[1]>>  nodeT == <<v, ConceptRole, rf[1]>>  outT0 == <<v, rf[3], t[3]>>
                inv == AppearsInverted(g, t)
                inT == IF inv THEN outT0 ELSE inT0
                outT == IF inv THEN inT0 ELSE outT0
                old == EpiOf(g, t)
                nodeE == ToAlign(SelectM(old, {"ralign"}))
                outE == SelectM(old, {"align"}) \o LastPush(old, Len(old)) \o SelectM(old, {"pop"})
            IN ReifyE(g, m, i + 1, vars \cup {v}, tr \o <<inT, nodeT, outT>>, epi \o <<<<Mk("push", v)>>, nodeE, outE>>)
         ELSE ReifyE(g, m, i + 1, vars, Append(tr, t), Append(epi, EpiOf(g, t)))
\* names a new variable must avoid: every variable and every constant of the graph
Taken(g) == Vars(g) \cup {g.tr[i][3] : i \in DOMAIN g.tr}
ReifyEdges(g, m) == ReifyE(g, m, 1, Taken(g), <<>>, <<>>)

(* ---- reify attributes: every attribute target becomes the concept of a new node ---- *)
RECURSIVE ReifyA(_, _, _, _, _)
ReifyA(g, i, vars, tr, epi) ==
    IF i > Len(g.tr) THEN G3(g.top, tr, epi)
    ELSE LET t == g.tr[i] IN
         IF t[2] # ConceptRole /\ t[3] \notin Vars(g) THEN
            LET v == Fresh(vars, 1)
                old == EpiOf(g, t)
            IN ReifyA(g, i + 1, vars \cup {v}, tr \o <<<<t[1], t[2], v>>, <<v, ConceptRole, t[3]>>>>,
                      epi \o << SelectM(old, {"ralign"}) \o <<Mk("push", v)>>,
                                SelectM(old, {"align"}) \o SelectM(old, {"pop"}) \o <<POPm>> >>)
         ELSE ReifyA(g, i + 1, vars, Append(tr, t), Append(epi, EpiOf(g, t)))
ReifyAttributes(g) == ReifyA(g, 1, Taken(g), <<>>, <<>>)

(* ---- indicate branches: a TOP triple before every triple that opens a node ---- *)
RECURSIVE Indic(_, _, _, _)
Indic(g, i, tr, epi) ==
    IF i > Len(g.tr) THEN G3(g.top, tr, epi)
    ELSE LET t == g.tr[i]
             pv == FirstPush(EpiOf(g, t), 1)
         IN IF pv # NULL /\ pv = t[3] THEN Indic(g, i + 1, tr \o <<<<t[1], TopRole, t[3]>>, t>>, epi \o <<<<>>, EpiOf(g, t)>>)
            ELSE IF pv # NULL /\ pv = t[1] THEN Indic(g, i + 1, tr \o <<<<t[3], TopRole, t[1]>>, t>>, epi \o <<<<>>, EpiOf(g, t)>>)
            ELSE Indic(g, i + 1, Append(tr, t), Append(epi, EpiOf(g, t)))
IndicateBranches(g) == Indic(g, 1, <<>>, <<>>)

(* ---- dereify edges: collapse a node with a dereifiable concept and exactly two other relations ---- *)
InstIdx(g, v) == LET S == {i \in DOMAIN g.tr : g.tr[i][1] = v /\ g.tr[i][2] = ConceptRole} IN
                 IF S = {} THEN 0 ELSE CHOOSE i \in S : \A j \in S : j <= i            \* the last one wins
Others(g, v) == SelectSeq([i \in DOMAIN g.tr |-> i], LAMBDA i : g.tr[i][1] = v /\ g.tr[i][2] # ConceptRole)
Fixed(g) == {g.top} \cup {g.tr[i][3] : i \in {j \in DOMAIN g.tr : g.tr[j][2] # ConceptRole}}
RECURSIVE TryDeif(_, _, _, _)
TryDeif(ds, k, f, s) ==   \* f, s : first and second triple; returns <<>> or <<triple>>
    IF k > Len(ds) THEN <<>>
    ELSE IF ds[k][2] = f[2] /\ ds[k][3] = s[2] THEN <<<<f[3], ds[k][1], s[3]>>>>
    ELSE IF ds[k][3] = f[2] /\ ds[k][2] = s[2] THEN <<<<s[3], ds[k][1], f[3]>>>>
    ELSE TryDeif(ds, k + 1, f, s)
RECURSIVE LastAlign(_, _)
LastAlign(e, k) == IF k < 1 THEN <<>> ELSE IF e[k].m = "align" THEN <<Mk("ralign", e[k].v)>> ELSE LastAlign(e, k - 1)
\* agenda entry for variable v: <<>> or <<index of the first relation, dereified triple, its markers>>
Agenda(g, m, v) ==
    LET ii == InstIdx(g, v)
        os == Others(g, v) IN
    IF ii = 0 \/ v \in Fixed(g) \/ Len(os) # 2 \/ ~Dereifiable(m, g.tr[ii][3]) THEN <<>>
    ELSE LET swap == PushedVar(g, g.tr[os[2]]) = v
             fi == IF swap THEN os[2] ELSE os[1]
             si == IF swap THEN os[1] ELSE os[2]
             d == TryDeif(DeifsOf(m, g.tr[ii][3]), 1, g.tr[fi], g.tr[si])
         IN IF d = <<>> \/ d[1][1] \notin Vars(g) THEN <<>>
            ELSE LET ie == EpiOf(g, g.tr[ii]) IN
                 <<fi, d[1], LastAlign(ie, Len(ie)) \o SelectM(EpiOf(g, g.tr[si]), {"push", "pop", "align"})>>
RECURSIVE Deif(_, _, _, _, _)
Deif(g, m, i, tr, epi) ==
    IF i > Len(g.tr) THEN G3(g.top, tr, epi)
    ELSE LET t == g.tr[i]
             a == Agenda(g, m, t[1])
         IN IF a = <<>> THEN Deif(g, m, i + 1, Append(tr, t), Append(epi, EpiOf(g, t)))
            ELSE IF t = g.tr[a[1]] THEN Deif(g, m, i + 1, Append(tr, a[2]), Append(epi, a[3]))
            ELSE Deif(g, m, i + 1, tr, epi)
DereifyEdges(g, m) == Deif(g, m, 1, <<>>, <<>>)
\* variables whose node is collapsed
Collapsed(g, m) == {v \in Sources(g) : Agenda(g, m, v) # <<>>}

Step(g, m, op) == CASE op = "reify_edges" -> ReifyEdges(g, m) [] op = "dereify_edges" -> DereifyEdges(g, m)
                    [] op = "reify_attributes" -> ReifyAttributes(g) [] op = "indicate_branches" -> IndicateBranches(g)
                    [] op = "strip" -> [g EXCEPT !.epi = [i \in DOMAIN g.tr |-> <<>>]]

(* ---- clauses of properties C11 / C12 as predicates ---- *)
IsAttr(g, t) == t[2] # ConceptRole /\ t[3] \notin Vars(g)
NoAttributes(g) == \A i \in DOMAIN g.tr : ~IsAttr(g, g.tr[i])
\* contracting the nodes introduced by attribute reification gives back the original triples
ContractAttrs(h, newvars) ==
    LET conceptOf(v) == h.tr[CHOOSE i \in DOMAIN h.tr : h.tr[i][1] = v /\ h.tr[i][2] = ConceptRole][3]
        kept == SelectSeq(h.tr, LAMBDA t : t[1] \notin newvars)
    IN [i \in DOMAIN kept |-> IF kept[i][2] # ConceptRole /\ kept[i][3] \in newvars
                              THEN <<kept[i][1], kept[i][2], conceptOf(kept[i][3])>> ELSE kept[i]]
NestedNodes(g) == {g.epi[i][k].v : <<i, k>> \in {p \in (DOMAIN g.epi) \X (1..8) : p[2] \in DOMAIN g.epi[p[1]] /\ g.epi[p[1]][p[2]].m = "push"}}
WithoutTop(h) == SelectSeq(h.tr, LAMBDA t : t[2] # TopRole)
=============================================================================
