SPECIFICATION Spec
CONSTANT NearOnly = TRUE
CONSTANT FullSpace = TRUE
INVARIANT StageLists
INVARIANT Export
CHECK_DEADLOCK FALSE
