SPECIFICATION Spec
CONSTANT MaxLen = 4
INVARIANT LinesOK
INVARIANT Tiling
INVARIANT ClassByGrammar
INVARIANT MaximalMunch
INVARIANT ContainersAgree
INVARIANT SuffixLocal
CHECK_DEADLOCK FALSE
