------------------------------- MODULE Layout -------------------------------
(***************************************************************************)
(* Re-layout operations and layout diagnostics (docs/api/penman.layout.rst).*)
(*   Rearrange(t, m, key, af): per node the concept branch stays first, the *)
(*     other branches are stably sorted by <<af /\ target is a variable,    *)
(*     key(role)>>.                                                         *)
(*   NodeContexts(g), PushedVar(g, t), AppearsInverted(g, t): functions of  *)
(*     the triple list and the (value-keyed) markers.                       *)
(***************************************************************************)
EXTENDS Interpret

(* ---- rearrange ---- *)
RECURSIVE SpanEnd(_, _, _)
SpanEnd(t, k, d) == IF k + 1 <= Len(t.br) /\ t.br[k + 1].d > d THEN SpanEnd(t, k + 1, d) ELSE k
RECURSIVE ConcatPayload(_, _)
ConcatPayload(items, i) == IF i > Len(items) THEN <<>> ELSE items[i][2] \o ConcatPayload(items, i + 1)
RECURSIVE RNode(_, _, _, _, _, _, _), RBlocks(_, _, _, _, _, _, _, _, _)
RNode(t, m, k, d, name, af, vars) == RBlocks(t, m, k, d, name, af, vars, TRUE, <<>>)
RBlocks(t, m, k, d, name, af, vars, atStart, items) ==
    IF k > Len(t.br) \/ t.br[k].d # d THEN ConcatPayload(StableSort(items), 1)
    ELSE LET b == t.br[k]
             e == SpanEnd(t, k, d)
             inner == IF b.kind = "node" THEN RNode(t, m, k + 1, d + 1, name, af, vars) ELSE <<>>
             item == <<<<KB(af /\ b.val \in vars)>> \o KeyOf(m, name, b.role), <<b>> \o inner>>
         IN IF atStart /\ b.role = "/"
            THEN <<b>> \o RBlocks(t, m, e + 1, d, name, af, vars, FALSE, items)      \* the concept stays first
            ELSE RBlocks(t, m, e + 1, d, name, af, vars, FALSE, Append(items, item))
Rearrange(t, m, name, af) == [t EXCEPT !.br = RNode(t, m, 1, 0, name, af, IF af THEN NodeVars(t) ELSE {})]
\* the ordering clause is judged only where the key is defined by the documentation: printable-ASCII role
\* texts without an alignment suffix (O2)
RearrangeJudgeable(t) == \A k \in DOMAIN t.br : IsAsciiText(t.br[k].role) /\ ~HasChar(t.br[k].role, "~")
\* per node: same bag of (branch with its subtree) and concept first
RECURSIVE OwnBlocks(_, _, _)
OwnBlocks(t, k, d) == IF k > Len(t.br) \/ t.br[k].d < d THEN <<>>
                      ELSE LET e == SpanEnd(t, k, d) IN <<SubSeq(t.br, k, e)>> \o OwnBlocks(t, e + 1, d)
\* all nodes as <<variable path key, bag of own branches (without subtrees)>>: the set of
\* (depth-first node variable, multiset of <<role, kind, val>>) pairs is invariant under rearranging
NodeBags(t) ==
    LET owner(k) == IF t.br[k].d = 0 THEN t.top
                    ELSE LET P == {j \in 1..(k - 1) : t.br[j].kind = "node" /\ t.br[j].d = t.br[k].d - 1} IN
                         t.br[CHOOSE j \in P : \A i \in P : i <= j].val
    IN BagOf([k \in DOMAIN t.br |-> <<owner(k), t.br[k].d, t.br[k].role, t.br[k].kind, t.br[k].val>>])
ConceptsFirst(t) == \A k \in DOMAIN t.br : t.br[k].role = "/" =>
                        (IF t.br[k].d = 0 THEN k = 1 ELSE t.br[k - 1].kind = "node" /\ t.br[k - 1].d = t.br[k].d - 1)

(* ---- diagnostics on [top, tr, epi] (markers looked up by value, first entry wins) ---- *)
Idx(g, t) == IF t \in Range(g.tr) THEN FirstIdx(g.tr, t) ELSE 0
EpiOf(g, t) == IF Idx(g, t) = 0 THEN <<>> ELSE g.epi[Idx(g, t)]
RECURSIVE FirstPush(_, _)
FirstPush(e, k) == IF k > Len(e) THEN NULL ELSE IF e[k].m = "push" THEN e[k].v ELSE FirstPush(e, k + 1)
PushedVar(g, t) == FirstPush(EpiOf(g, t), 1)
NPops(e) == Cardinality({k \in DOMAIN e : e[k].m = "pop"})
\* stack simulation over the ordered triples; NULL = unknown
RECURSIVE Ctxs(_, _, _, _)
Ctxs(g, i, stack, acc) ==
    IF i > Len(g.tr) THEN acc
    ELSE LET t == g.tr[i]
             elig == {t[1]} \cup (IF t[2] # ConceptRole /\ t[3] \in Vars(g) THEN {t[3]} ELSE {})
         IN IF Len(stack) = 0 \/ stack[Len(stack)] \notin elig
            THEN acc \o [k \in 1..(Len(g.tr) - i + 1) |-> NULL]
            ELSE LET pv == PushedVar(g, t)
                     st1 == IF pv # NULL THEN Append(stack, pv) ELSE stack
                     np == NPops(EpiOf(g, t))
                 IN IF np > Len(st1)
                    THEN Append(acc, stack[Len(stack)]) \o [k \in 1..(Len(g.tr) - i) |-> NULL]
                    ELSE Ctxs(g, i + 1, SubSeq(st1, 1, Len(st1) - np), Append(acc, stack[Len(stack)]))
NodeContexts(g) == Ctxs(g, 1, <<g.top>>, <<>>)
AppearsInverted(g, t) ==
    IF t[2] = ConceptRole \/ t[3] \notin Vars(g) THEN FALSE
    ELSE IF PushedVar(g, t) # NULL THEN PushedVar(g, t) = t[1]
    ELSE LET c == NodeContexts(g)
             i == Idx(g, t)
         IN i # 0 /\ (\A j \in 1..i : c[j] # NULL) /\ t[3] = c[i]
=============================================================================
