------------------------------- MODULE MC_Interpret -------------------------------
(* Bounded-exhaustive instance of Interpret and of the layout diagnostics: every    *)
(* tree up to MaxBr branches over a small alphabet (variables possibly defined      *)
(* twice, re-entrancies, cycles, inverted and doubly inverted roles, a role the     *)
(* model defines with an -of ending, aligned roles and targets, a "~" inside a      *)
(* string, concepts spelled like variables) under the default, no-op and MiniAMR    *)
(* models.  Checks the clauses of properties C04 and C14 on the specification.      *)
EXTENDS Layout
CONSTANTS MaxBr, MaxDepth
VARIABLES tree, mname, phase, g
NVars == {"a", "b", "c"}
ConceptTexts == {"A~e.1", "a", NULL}
RoleTexts == {":R", ":R-of~1", ":R-of-of", ":consist-of"}
AtomTexts == {"a", "b", "x~e.1,2", "\"s~t\"~2", NULL}
MaxD(t) == IF Len(t.br) = 0 THEN 0
           ELSE LET l == t.br[Len(t.br)] IN IF l.kind = "node" THEN l.d + 1 ELSE l.d
ConceptSlot(t, d) == IF Len(t.br) = 0 THEN d = 0 ELSE LET l == t.br[Len(t.br)] IN l.kind = "node" /\ d = l.d + 1
Br(d, role, kind, val) == [d |-> d, role |-> role, kind |-> kind, val |-> val]
M == Models[mname]
Init == mname \in {"default", "noop", "miniamr"} /\ tree = [top |-> "a", br |-> <<>>, meta |-> <<>>] /\ phase = "new" /\ g = <<>>
\* the reading of a tree is computed once, in a step of its own, and held in the state variable g
Read == phase = "new" /\ phase' = "read" /\ g' = Interpret(tree, M) /\ UNCHANGED <<tree, mname>>
Grow(t2) == phase = "read" /\ Len(tree.br) < MaxBr /\ tree' = t2 /\ phase' = "new" /\ UNCHANGED <<mname, g>>
Next == \/ Read
        \/ \E d \in 0..MaxD(tree), c \in ConceptTexts : ConceptSlot(tree, d) /\ Grow([tree EXCEPT !.br = Append(@, Br(d, "/", "atom", c))])
        \/ \E d \in 0..MaxD(tree), r \in RoleTexts, a \in AtomTexts : Grow([tree EXCEPT !.br = Append(@, Br(d, r, "atom", a))])
        \/ \E d \in 0..MaxD(tree), r \in RoleTexts, v \in NVars : d < MaxDepth /\ Grow([tree EXCEPT !.br = Append(@, Br(d, r, "node", v))])
Spec == Init /\ [][Next]_<<tree, mname, phase, g>>
R == phase = "read"
NNodes == 1 + Cardinality({k \in DOMAIN tree.br : tree.br[k].kind = "node"})
NConcepts == Cardinality({k \in DOMAIN tree.br : tree.br[k].role = "/"})
Count(kind) == LET RECURSIVE Sum(_) Sum(i) == IF i > Len(g.epi) THEN 0 ELSE Cardinality({k \in DOMAIN g.epi[i] : g.epi[i][k].m = kind}) + Sum(i + 1) IN Sum(1)

\* per node one instance triple, per non-concept branch one triple
TripleCountB == /\ Len(g.tr) = Len(tree.br) - NConcepts + NNodes
               /\ Cardinality({i \in DOMAIN g.tr : g.tr[i][2] = ConceptRole}) = NNodes
\* a node without a written concept gets the null concept, listed first among the triples written from it
NullConceptFirstB == \A i \in DOMAIN g.tr : (g.tr[i][2] = ConceptRole /\ g.tr[i][3] = NULL /\ g.wnode[i] = g.tr[i][1]) =>
                       (i = 1 \/ g.opened[i - 1] = g.tr[i][1])
SourcesAreNodesB == \A i \in DOMAIN g.tr : g.tr[i][1] \in NodeVars(tree)
\* alignment suffixes are never part of a triple; a "~" inside a quoted string is content
NoAlignmentInTriplesB == \A i \in DOMAIN g.tr : \A j \in 1..3 :
                           g.tr[i][j] = NULL \/ StartsWith(g.tr[i][j], "\"") \/ ~HasChar(g.tr[i][j], "~")
StringContentKeptB == \A k \in DOMAIN tree.br : (tree.br[k].kind = "atom" /\ tree.br[k].val # NULL /\ StartsWith(tree.br[k].val, "\"")) =>
                        \E i \in DOMAIN g.tr : g.tr[i][3] = "\"s~t\""
\* deinversion: once, only towards a node variable, never under the no-op model
DeinversionB == \A i \in DOMAIN g.tr :
                  /\ (mname = "noop" => ~g.winv[i])
                  /\ (g.winv[i] => g.tr[i][1] \in NodeVars(tree) /\ g.tr[i][3] = g.wnode[i])
                  /\ (~g.winv[i] => g.tr[i][1] = g.wnode[i])
MarkerCountsB == Count("push") = NNodes - 1 /\ Count("pop") = NNodes - 1
\* the markers describe the walk: replaying Push/POP over the triples gives back the writing node of every triple
\* (design-level statement of property C14; needs distinct triples because markers are keyed by value)
Distinct == \A i, j \in DOMAIN g.tr : i # j => g.tr[i] # g.tr[j]
WF == WellFormedTree(tree, M)
MarkersReplayWalkB == WF => NodeContexts([top |-> g.top, tr |-> g.tr, epi |-> g.epi]) = g.wnode
PushedIsOpenedB == Distinct => \A i \in DOMAIN g.tr : PushedVar(g, g.tr[i]) = g.opened[i]
InvertedIffWrittenB == WF => \A i \in DOMAIN g.tr : g.tr[i][1] # g.tr[i][3] => AppearsInverted(g, g.tr[i]) = g.winv[i]
TripleCount == R => TripleCountB
NullConceptFirst == R => NullConceptFirstB
SourcesAreNodes == R => SourcesAreNodesB
NoAlignmentInTriples == R => NoAlignmentInTriplesB
StringContentKept == R => StringContentKeptB
Deinversion == R => DeinversionB
MarkerCounts == R => MarkerCountsB
MarkersReplayWalk == R => MarkersReplayWalkB
PushedIsOpened == R => PushedIsOpenedB
InvertedIffWritten == R => InvertedIffWrittenB
Export == R => PrintT("X|" \o ToJson([tree |-> tree, model |-> mname]))
=============================================================================
