------------------------------- MODULE Stream -------------------------------
(***************************************************************************)
(* Containers and stream framing (docs/api/penman.rst: load, loads, dump,   *)
(* dumps, iterdecode): the same text is one string, a list of lines without *)
(* or with their terminators, or a file read in text mode (CRLF and CR are  *)
(* translated to LF); in all of them only LF, CRLF and CR end a line.       *)
(* A stream is COMMENT* Node repeated; comments belong to the graph that    *)
(* follows them.                                                            *)
(***************************************************************************)
EXTENDS Formatter, Interpret

RECURSIVE MapLF(_, _)
MapLF(ls, i) == IF i > Len(ls) THEN <<>>
                ELSE LET l == ls[i]
                         body == RStrip(l, {SC.cr, SC.lf})
                     IN <<IF Len(body) < Len(l) THEN body \o SC.lf ELSE body>> \o MapLF(ls, i + 1)
\* what iterating over a file opened in text mode yields
FileLines(text) == MapLF(LinesKeep(text), 1)
TokensOf(text, container) ==
    CASE container = "str" -> Lex(text, FALSE)
      [] container = "lines" -> LexSeq(Lines(text), FALSE)
      [] container = "keep" -> LexSeq(LinesKeep(text), FALSE)
      [] container = "file" -> LexSeq(FileLines(text), FALSE)
\* outcome: the trees read before the end or the first error, and whether an error ended the stream
Outcome(text, container) == LET r == ParseAll(TokensOf(text, container)) IN [ok |-> r.ok, trees |-> r.trees]
GraphsOf(trees, m) == [i \in DOMAIN trees |-> Interpret(trees[i], m)]

Sep(name) == CASE name = "blank" -> SC.lf \o SC.lf [] name = "newline" -> SC.lf [] name = "space" -> " " [] name = "none" -> ""
                [] name = "crlf" -> SC.cr \o SC.lf \o SC.cr \o SC.lf
Dumps(trees, indent, compact, sepname) == Join([i \in DOMAIN trees |-> Fmt(trees[i], indent, compact)], Sep(sepname))
\* separators that keep a following metadata comment on a line of its own
SepSafe(trees, sepname) == sepname \in {"blank", "newline", "crlf"} \/ \A i \in 2..Len(trees) : trees[i].meta = <<>>
=============================================================================
