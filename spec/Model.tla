------------------------------- MODULE Model -------------------------------
(***************************************************************************)
(* Semantic models (docs/api/penman.model.rst): which roles are defined,    *)
(* inversion by the "-of" suffix unless the model defines the role,         *)
(* canonicalisation (colon, inversions removed in pairs, one normalisation  *)
(* lookup last), role sort keys, reification tables.                        *)
(*                                                                          *)
(* A model is [lits, pats, noop, norm, reifs]: literal roles (a set),       *)
(* pattern roles <<prefix, "one"|"many">> (prefix followed by one digit or  *)
(* by one or more digits), the no-op flag (never deinvert), normalisations  *)
(* (sequence of <<from, to>>) and reifications (sequence of <<role,         *)
(* concept, source role, target role>>, in table order).  Named models are  *)
(* read from models.json (AMR transcribed from the documentation).          *)
(***************************************************************************)
EXTENDS Text

TopRole == ":TOP"
ConceptRole == ":instance"

RawModels == JsonDeserialize("models.json")
MkModel(r) == [lits |-> Range(r.lits), pats |-> Range(r.pats), noop |-> r.noop, norm |-> r.norm, reifs |-> r.reifs]
Models == [n \in DOMAIN RawModels |-> MkModel(RawModels[n])]

(* ---- role membership ---- *)
MatchesPat(p, r) == /\ StartsWith(r, p[1]) /\ Len(r) > Len(p[1]) /\ AllDigits(r, Len(p[1]) + 1)
                    /\ (p[2] = "one" => Len(r) = Len(p[1]) + 1)
Defined(m, r) == \/ r \in m.lits \/ r \in {TopRole, ConceptRole}
                 \/ \E p \in m.pats : MatchesPat(p, r)
\* defined directly or as a single inversion of a defined role
HasRole(m, r) == Defined(m, r) \/ (EndsWith(r, "-of") /\ Defined(m, DropLast(r, 3)))

(* ---- inversion ---- *)
IsInverted(m, r) == ~Defined(m, r) /\ EndsWith(r, "-of")
InvertRole(m, r) == IF IsInverted(m, r) THEN DropLast(r, 3) ELSE r \o "-of"
Invert(m, t) == <<t[3], InvertRole(m, t[2]), t[1]>>
Deinvert(m, t) == IF m.noop THEN t ELSE IF IsInverted(m, t[2]) THEN Invert(m, t) ELSE t

(* ---- canonicalisation ---- *)
EnsureColon(x) == IF x # "/" /\ ~StartsWith(x, ":") THEN ":" \o x ELSE x
RECURSIVE CanonInv(_, _)
CanonInv(m, x) == LET y == InvertRole(m, InvertRole(m, x)) IN IF y = x THEN x ELSE CanonInv(m, y)
PreNorm(m, x) == LET c == EnsureColon(x) IN IF Defined(m, c) THEN c ELSE CanonInv(m, c)
RECURSIVE NormIdx(_, _, _)
NormIdx(m, x, i) == IF i > Len(m.norm) THEN 0 ELSE IF m.norm[i][1] = x THEN i ELSE NormIdx(m, x, i + 1)
\* a mapping given as a list: the last entry for a key wins (as building a dict from pairs does)
RECURSIVE NormIdxLast(_, _, _)
NormIdxLast(m, x, i) == IF i < 1 THEN 0 ELSE IF m.norm[i][1] = x THEN i ELSE NormIdxLast(m, x, i - 1)
NormOf(m, x) == LET i == NormIdxLast(m, x, Len(m.norm)) IN IF i = 0 THEN x ELSE m.norm[i][2]
NormKeys(m) == {m.norm[i][1] : i \in DOMAIN m.norm}
CanonRole(m, x) == NormOf(m, PreNorm(m, x))
\* the normalisation table is closed: no value is itself a key, every value is inversion-canonical
ClosedTable(m) == \A i \in DOMAIN m.norm : m.norm[i][2] \notin NormKeys(m) /\ PreNorm(m, m.norm[i][2]) = m.norm[i][2]
\* number of trailing "-of" that count as inversions under m
RECURSIVE OfCount(_, _)
OfCount(m, r) == IF IsInverted(m, r) THEN 1 + OfCount(m, DropLast(r, 3)) ELSE 0

(* ---- sort keys: sequences of components [t |-> "n"|"s", v], compared lexicographically ---- *)
KN(v) == [t |-> "n", v |-> v]
KS(v) == [t |-> "s", v |-> v]
KB(b) == KN(IF b THEN 1 ELSE 0)
\* (.*\D)(\d+)$ : a non-empty stem ending in a non-digit followed by digits
AlphaKey(role) == LET n == TrailDigits(role, 0) IN
                  IF n >= 1 /\ Len(role) > n
                  THEN <<KS(SubSeq(role, 1, Len(role) - n)), KN(ToNat(SubSeq(role, Len(role) - n + 1, Len(role)), 1, 0))>>
                  ELSE <<KS(role), KN(0)>>
CanonKey(m, role) == <<KB(IsInverted(m, role))>> \o AlphaKey(role)
KeyOf(m, name, role) == CASE name \in {"none", "original"} -> <<KB(TRUE)>>
                          [] name = "alphanumeric" -> AlphaKey(role)
                          [] name = "canonical" -> CanonKey(m, role)
                          [] name = "inverted-last" -> <<KB(IsInverted(m, role))>>
CompLess(x, y) == IF x.t = "n" THEN x.v < y.v ELSE StrLess(x.v, y.v)
RECURSIVE KeyLessFrom(_, _, _)
KeyLessFrom(a, b, i) == IF i > Len(a) THEN i <= Len(b) ELSE IF i > Len(b) THEN FALSE
                        ELSE IF a[i] = b[i] THEN KeyLessFrom(a, b, i + 1) ELSE CompLess(a[i], b[i])
KeyLess(a, b) == KeyLessFrom(a, b, 1)
KeyComparable(k) == \A i \in DOMAIN k : k[i].t = "n" \/ IsAsciiText(k[i].v)
\* stable insertion sort of a sequence of <<key, payload>>
RECURSIVE InsertSt(_, _)
InsertSt(sorted, x) == IF Len(sorted) = 0 THEN <<x>>
                       ELSE IF KeyLess(x[1], sorted[Len(sorted)][1])
                            THEN Append(InsertSt(SubSeq(sorted, 1, Len(sorted) - 1), x), sorted[Len(sorted)])
                            ELSE Append(sorted, x)
RECURSIVE SortAll(_, _, _)
SortAll(items, k, acc) == IF k > Len(items) THEN acc ELSE SortAll(items, k + 1, InsertSt(acc, items[k]))
StableSort(items) == SortAll(items, 1, <<>>)

(* ---- reification ---- *)
RECURSIVE ReifIdx(_, _, _)
ReifIdx(m, role, i) == IF i > Len(m.reifs) THEN 0 ELSE IF m.reifs[i][1] = role THEN i ELSE ReifIdx(m, role, i + 1)
Reifiable(m, role) == ReifIdx(m, role, 1) # 0
\* <<concept, source role, target role>> of the first table entry for the role
ReifOf(m, role) == LET e == m.reifs[ReifIdx(m, role, 1)] IN <<e[2], e[3], e[4]>>
\* table entries <<role, source role, target role>> for a concept, in table order
DeifsOf(m, concept) == LET s == SelectSeq(m.reifs, LAMBDA e : e[2] = concept) IN [i \in DOMAIN s |-> <<s[i][1], s[i][3], s[i][4]>>]
Dereifiable(m, concept) == \E i \in DOMAIN m.reifs : m.reifs[i][2] = concept
\* the table is unambiguous for a set of roles: each role has one entry and its concept serves no other role
\* with the same pair of argument roles in either orientation
Unambiguous(m, roles) ==
    \A r \in roles : Reifiable(m, r) =>
        LET e == ReifOf(m, r) IN
        \A i \in DOMAIN m.reifs :
            LET f == m.reifs[i] IN
            (f[2] = e[1] /\ {f[3], f[4]} = {e[2], e[3]}) => f[1] = r
=============================================================================
