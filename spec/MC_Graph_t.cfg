SPECIFICATION Spec
CONSTANT MaxT = 2
CONSTANT MaxT2 = 1
CONSTANT MaxH = 2
VIEW View
INVARIANT RolesHaveColon
INVARIANT AllPartition
INVARIANT AllImplicitTop
INVARIANT EdgesAreVariableTargets
INVARIANT FiltersSelectSubLists
INVARIANT ReentrancyFormula
PROPERTY TopRefusal
PROPERTY OperandsUntouched
PROPERTY SetAlgebra
CHECK_DEADLOCK FALSE
