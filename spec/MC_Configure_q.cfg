SPECIFICATION Spec
CONSTANT GUARD = TRUE
CONSTANT MAXX = 1
CONSTANT MODE = "corrupt"
CONSTANT defaultInitValue = defaultInitValue
INVARIANT PostOK
INVARIANT RoundsBounded
PROPERTY Termination
CHECK_DEADLOCK FALSE
