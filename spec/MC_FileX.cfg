SPECIFICATION Spec
CONSTANT MaxOps = 3
INVARIANT Export
CHECK_DEADLOCK FALSE
