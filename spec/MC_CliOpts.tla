------------------------------- MODULE MC_CliOpts -------------------------------
(* Every option set of the option space: the stage list is in the documented order,  *)
(* every stage is given the selected model, there is exactly one layout stage and    *)
(* formatting comes last.  With Export the option sets and their plans are printed   *)
(* for replay against the real command.                                              *)
EXTENDS Cli
CONSTANT NearOnly        \* TRUE: only the option sets within two fields of the empty option set (Cli!NearDefault)
VARIABLES o
Init == o \in (IF NearOnly THEN NearDefault ELSE OptSpace)
Next == UNCHANGED o
Spec == Init /\ [][Next]_o
StageLists == LET s == Stages(o) IN
    /\ \A i, j \in DOMAIN s : i < j => Pos(s[i].fn) < Pos(s[j].fn)
    /\ \A i \in DOMAIN s : s[i].model = o.model
    /\ Cardinality({i \in DOMAIN s : s[i].fn \in {"configure", "reconfigure"}}) = (IF o.triples THEN 0 ELSE 1)
    /\ s[Len(s)].fn = (IF o.triples THEN "format_triples" ELSE "format")
    /\ (\E i \in DOMAIN s : s[i].fn = "interpret")
Export == PrintT("X|" \o ToJson(Plan(o)))
=============================================================================
