SPECIFICATION Spec
CONSTANT MaxQ = 3
CONSTANT MaxA = 4
INVARIANT QuoteIsOneStringToken
INVARIANT QuoteAlsoInTripleMode
INVARIANT QuoteIsAscii
INVARIANT UnquoteInverts
INVARIANT QuoteTypedString
INVARIANT EvalTotal
INVARIANT NumberIffJsonSyntax
INVARIANT NoneOnlyForEmpty
INVARIANT ErrorIffUnbalanced
INVARIANT TypeMatchesKind
CHECK_DEADLOCK FALSE
