------------------------------- MODULE Lexer -------------------------------
(***************************************************************************)
(* The documented lexical grammar of PENMAN notation (docs/notation.rst):  *)
(*                                                                         *)
(*   Symbol    <- NameChar+            Role <- ':' NameChar*               *)
(*   Alignment <- '~' ([a-zA-Z] '.'?)? Digit+ (',' Digit+)*                *)
(*   String    <- '"' (!'"' (StrEscape / StrChar))* '"'                    *)
(*   NameChar  <- ![ \n\t\r\f\v"()/:~] .                                   *)
(*                                                                         *)
(* plus what the documentation says in prose: a comment runs from '#' at   *)
(* the start of a token to the end of the line; only LF, CRLF and CR end a *)
(* line; any other non-blank character is a token of its own (UNEXPECTED)  *)
(* so that the parser can reject it.  A token is                           *)
(*   [type, text, line (1-based), col (0-based)].                          *)
(*                                                                         *)
(* Two formulations are given: an operational scanner (Tok/LexLine/Lex,    *)
(* maximal munch with the documented priority) and declarative predicates  *)
(* per token class (IsSymbolText ...); MC_Lexer checks them against each   *)
(* other together with the tiling invariants of property C08.              *)
(***************************************************************************)
EXTENDS Text

(* ---- line splitting: LF, CRLF, CR only ---- *)
\* (the scan for the next terminator returns before the recursion over lines continues, so the depth of
\* evaluation is bounded by the number of lines plus the longest line, not by the length of the text)
NL == {SC.cr, SC.lf}
TermLen(s, i) == IF Ch(s, i) = SC.cr /\ i < Len(s) /\ Ch(s, i + 1) = SC.lf THEN 2 ELSE 1
RECURSIVE Split(_, _, _)
Split(s, start, acc) ==
    LET i == RunNot(s, start, NL) IN
    IF i > Len(s) THEN Append(acc, SubSeq(s, start, Len(s)))
    ELSE Split(s, i + TermLen(s, i), Append(acc, SubSeq(s, start, i - 1)))
Lines(s) == Split(s, 1, <<>>)

\* the same with terminators kept (what iterating over a text file opened with newline='' or
\* str.splitlines(keepends=True) restricted to LF/CRLF/CR would give)
RECURSIVE SplitKeep(_, _, _)
SplitKeep(s, start, acc) ==
    LET i == RunNot(s, start, NL) IN
    IF i > Len(s) THEN (IF start <= Len(s) THEN Append(acc, SubSeq(s, start, Len(s))) ELSE acc)
    ELSE SplitKeep(s, i + TermLen(s, i), Append(acc, SubSeq(s, start, i + TermLen(s, i) - 1)))
LinesKeep(s) == SplitKeep(s, 1, <<>>)

(* ---- one token at position p of a line ---- *)
\* end (exclusive) of a string body starting at p (just after the opening quote), 0 if unterminated
RECURSIVE StrEnd(_, _)
StrEnd(s, p) == IF p > Len(s) THEN 0
                ELSE IF Ch(s, p) = "\"" THEN p + 1
                ELSE IF Ch(s, p) = "\\" THEN (IF p + 1 > Len(s) \/ Ch(s, p + 1) = SC.lf THEN 0 ELSE StrEnd(s, p + 2))
                ELSE StrEnd(s, p + 1)
RECURSIVE AlnTail(_, _)
AlnTail(s, p) == IF p + 1 <= Len(s) /\ Ch(s, p) = "," /\ Ch(s, p + 1) \in Digits
                 THEN AlnTail(s, RunIn(s, p + 1, Digits)) ELSE p
\* end (exclusive) of an alignment starting with '~' at p, 0 if none
AlnEnd(s, p) ==
    LET q0 == p + 1
        q1 == IF q0 <= Len(s) /\ Ch(s, q0) \in Letters
              THEN (IF q0 + 1 <= Len(s) /\ Ch(s, q0 + 1) = "." THEN q0 + 2 ELSE q0 + 1) ELSE q0
        q2 == IF q1 <= Len(s) /\ Ch(s, q1) \in Digits THEN q1 ELSE 0
    IN IF q2 = 0 THEN 0 ELSE AlnTail(s, RunIn(s, q2, Digits))
\* end (exclusive) of a comment starting at p: to the end of the line; a line handed over with its
\* terminator keeps the final LF out of the comment
CommentEnd(s, p) == LET q == IndexOf(s, SC.lf, p) IN
                    IF q = 0 THEN Len(s) + 1 ELSE IF q = Len(s) THEN q ELSE 0
Tok(s, p, triple) ==
    LET c == Ch(s, p) IN
    IF c = "#" /\ CommentEnd(s, p) # 0 THEN <<"COMMENT", CommentEnd(s, p)>>
    ELSE IF c = "\"" /\ StrEnd(s, p + 1) # 0 THEN <<"STRING", StrEnd(s, p + 1)>>
    ELSE IF c = "(" THEN <<"LPAREN", p + 1>>
    ELSE IF c = ")" THEN <<"RPAREN", p + 1>>
    ELSE IF c = "/" /\ ~triple THEN <<"SLASH", p + 1>>
    ELSE IF c = ":" /\ ~triple THEN <<"ROLE", RunNot(s, p + 1, NonName)>>
    ELSE IF c \notin NonName THEN <<"SYMBOL", RunNot(s, p, NonName)>>
    ELSE IF c = "~" /\ ~triple /\ AlnEnd(s, p) # 0 THEN <<"ALIGNMENT", AlnEnd(s, p)>>
    ELSE <<"UNEXPECTED", p + 1>>
MkTok(type, text, line, col) == [type |-> type, text |-> text, line |-> line, col |-> col]
RECURSIVE LexLine(_, _, _, _, _)
LexLine(s, ln, p, triple, acc) ==
    IF p > Len(s) THEN acc
    ELSE IF Ch(s, p) \in Blanks THEN LexLine(s, ln, RunIn(s, p, Blanks), triple, acc)
    ELSE LET t == Tok(s, p, triple)
         IN LexLine(s, ln, t[2], triple, Append(acc, MkTok(t[1], SubSeq(s, p, t[2] - 1), ln, p - 1)))
RECURSIVE LexLines(_, _, _, _)
LexLines(ls, n, triple, acc) == IF n > Len(ls) THEN acc ELSE LexLines(ls, n + 1, triple, LexLine(ls[n], n, 1, triple, acc))
\* a text given as one string
Lex(text, triple) == LexLines(Lines(text), 1, triple, <<>>)
\* a text given as a sequence of lines (with or without their terminators)
LexSeq(lines, triple) == LexLines(lines, 1, triple, <<>>)
TokKey(toks) == [i \in DOMAIN toks |-> <<toks[i].type, toks[i].text>>]

(* ---- declarative token classes (written from the PEG, independently of Tok) ---- *)
IsNameText(x) == \A i \in 1..Len(x) : Ch(x, i) \notin NonName
IsSymbolText(x) == Len(x) >= 1 /\ IsNameText(x)
IsRoleText(x) == Len(x) >= 1 /\ Ch(x, 1) = ":" /\ IsNameText(SubSeq(x, 2, Len(x)))
\* digits (, digits)*
RECURSIVE IsIndexList(_)
IsIndexList(x) == LET q == RunIn(x, 1, Digits) IN
                  /\ q > 1
                  /\ \/ q = Len(x) + 1
                     \/ Ch(x, q) = "," /\ IsIndexList(SubSeq(x, q + 1, Len(x)))
IsAlignmentText(x) ==
    /\ Len(x) >= 2 /\ Ch(x, 1) = "~"
    /\ \/ IsIndexList(SubSeq(x, 2, Len(x)))
       \/ Ch(x, 2) \in Letters /\ IsIndexList(SubSeq(x, 3, Len(x)))
       \/ Len(x) >= 3 /\ Ch(x, 2) \in Letters /\ Ch(x, 3) = "." /\ IsIndexList(SubSeq(x, 4, Len(x)))
\* '"' (escape pair | non-quote non-backslash)* '"'
RECURSIVE IsStrBody(_, _)
IsStrBody(x, i) == IF i = Len(x) THEN Ch(x, i) = "\""
                   ELSE IF i > Len(x) THEN FALSE
                   ELSE IF Ch(x, i) = "\"" THEN FALSE
                   ELSE IF Ch(x, i) = "\\" THEN i + 1 < Len(x) /\ IsStrBody(x, i + 2)
                   ELSE IsStrBody(x, i + 1)
IsStringText(x) == Len(x) >= 2 /\ Ch(x, 1) = "\"" /\ IsStrBody(x, 2)
ClassOK(tok, triple) ==
    CASE tok.type = "COMMENT" -> Ch(tok.text, 1) = "#"
      [] tok.type = "STRING" -> IsStringText(tok.text)
      [] tok.type = "LPAREN" -> tok.text = "("
      [] tok.type = "RPAREN" -> tok.text = ")"
      [] tok.type = "SLASH" -> tok.text = "/" /\ ~triple
      [] tok.type = "ROLE" -> IsRoleText(tok.text) /\ ~triple
      [] tok.type = "SYMBOL" -> IsSymbolText(tok.text) /\ Ch(tok.text, 1) # "#"
      [] tok.type = "ALIGNMENT" -> IsAlignmentText(tok.text) /\ ~triple
      [] tok.type = "UNEXPECTED" -> Len(tok.text) = 1 /\ tok.text \notin Blanks
      [] OTHER -> FALSE

(* ---- tiling (property C08), as predicates over a line and the tokens of that line ---- *)
TokensOfLine(toks, ln) == SelectSeq(toks, LAMBDA t : t.line = ln)
Covered(lt) == UNION {(lt[i].col + 1)..(lt[i].col + Len(lt[i].text)) : i \in DOMAIN lt}
TilesLine(s, lt) ==
    /\ \A i \in DOMAIN lt : Len(lt[i].text) >= 1 /\ lt[i].col >= 0 /\ lt[i].col + Len(lt[i].text) <= Len(s)
                                /\ SubSeq(s, lt[i].col + 1, lt[i].col + Len(lt[i].text)) = lt[i].text
    /\ \A i \in 1..(Len(lt) - 1) : lt[i].col + Len(lt[i].text) <= lt[i + 1].col
    /\ \A p \in (1..Len(s)) \ Covered(lt) : Ch(s, p) \in Blanks
=============================================================================
