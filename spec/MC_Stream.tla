------------------------------- MODULE MC_Stream -------------------------------
(* Bounded-exhaustive instance for property C09: (1) every text up to MaxLen over   *)
(* an alphabet with both line terminators, a non-terminating line separator (NEL),  *)
(* VT, comments and node syntax gives the same outcome in every container;          *)
(* (2) every sequence of up to 2 trees from a pool, written with every separator    *)
(* and read back, gives the same trees, comments attached to the following graph.   *)
EXTENDS Stream
CONSTANT MaxLen
VARIABLES mode, text, seqn
Alpha == {"(", ")", "a", "/", "#", ":", " ", SC.lf, SC.cr, SC.vt, SC.nel}
Pool == { [top |-> "a", br |-> <<>>, meta |-> <<>>],
          [top |-> "a", br |-> <<[d |-> 0, role |-> "/", kind |-> "atom", val |-> "x"]>>, meta |-> <<<<"id", "1">>>>],
          [top |-> "b", br |-> <<[d |-> 0, role |-> ":r", kind |-> "node", val |-> "c"], [d |-> 1, role |-> "/", kind |-> "atom", val |-> "\"s (t)\""]>>,
           meta |-> <<<<"snt", "x; (y) \"z\" # w" \o SC.nel \o "v">>, <<"k", "">>>>],
          [top |-> NULL, br |-> <<>>, meta |-> <<>>] }
Init == \/ mode = "text" /\ text = "" /\ seqn = <<>>
        \/ mode = "dump" /\ text = "" /\ seqn \in UNION {[1..n -> Pool] : n \in 0..2}
Next == mode = "text" /\ Len(text) < MaxLen /\ \E c \in Alpha : text' = text \o c /\ UNCHANGED <<mode, seqn>>
Spec == Init /\ [][Next]_<<mode, text, seqn>>
ContainersAgree == mode = "text" => \A c \in {"lines", "keep", "file"} : Outcome(text, c) = Outcome(text, "str")
OnlyThreeTerminators == mode = "text" =>
    Len(Lines(text)) = 1 + Cardinality({i \in 1..Len(text) : Ch(text, i) = SC.lf \/ (Ch(text, i) = SC.cr /\ (i = Len(text) \/ Ch(text, i + 1) # SC.lf))})
RoundTrip == mode = "dump" => \A s \in {"blank", "newline", "space", "none", "crlf"}, ind \in {NONE, 0 - 1, 1}, cp \in BOOLEAN :
    SepSafe(seqn, s) => LET o == Outcome(Dumps(seqn, ind, cp, s), "str") IN o.ok /\ o.trees = seqn
FileRoundTrip == mode = "dump" => LET o == Outcome(Dumps(seqn, 0 - 1, FALSE, "blank") \o SC.lf, "file") IN o.ok /\ o.trees = seqn
=============================================================================
