SPECIFICATION Spec
CONSTANT MaxBr = 2
CONSTANT MaxDepth = 2
INVARIANT TripleCount
INVARIANT NullConceptFirst
INVARIANT SourcesAreNodes
INVARIANT NoAlignmentInTriples
INVARIANT StringContentKept
INVARIANT Deinversion
INVARIANT MarkerCounts
INVARIANT MarkersReplayWalk
INVARIANT PushedIsOpened
INVARIANT InvertedIffWritten
CHECK_DEADLOCK FALSE
