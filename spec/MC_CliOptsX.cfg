SPECIFICATION Spec
CONSTANT NearOnly = FALSE
CONSTANT FullSpace = FALSE
INVARIANT Export
CHECK_DEADLOCK FALSE
