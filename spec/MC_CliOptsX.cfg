SPECIFICATION Spec
CONSTANT FullSpace = FALSE
INVARIANT Export
CHECK_DEADLOCK FALSE
