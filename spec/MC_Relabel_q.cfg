SPECIFICATION Spec
CONSTANT MaxP = 3
CONSTANT MaxN = 3
INVARIANT Progress
INVARIANT StuckWithoutIndex
INVARIANT Bijection
INVARIANT PlanAgrees
INVARIANT FirstFreeCandidate
PROPERTY TerminatesWithIndex
CHECK_DEADLOCK FALSE
