------------------------------- MODULE J_Api -------------------------------
(***************************************************************************)
(* Behaviour of the API surface that no listed property speaks about, added  *)
(* as the specification grows (verdicts are reported as drift, never as      *)
(* violations): Tree.nodes and Tree.walk (depth-first order, 0-based branch   *)
(* paths), Tree equality (metadata is not compared), Graph equality (same top *)
(* and the same set of triples, same length), alignment markers from and to   *)
(* text.                                                                      *)
(***************************************************************************)
EXTENDS Relabel, IOUtils
Traces == ndJsonDeserialize(IOEnv.TRACE_FILE)
VARIABLES tid, step, verdict
T == Traces[tid]
\* paths of the branches in depth-first order: the path of a branch extends the path of the branch that opened its node
RECURSIVE PathOf(_, _)
PathOf(t, k) ==
    LET d == t.br[k].d
        sibsBefore == Cardinality({j \in 1..(k - 1) : t.br[j].d = d /\ \A i \in (j + 1)..(k - 1) : t.br[i].d >= d})
    IN IF d = 0 THEN <<sibsBefore>>
       ELSE LET P == {j \in 1..(k - 1) : t.br[j].kind = "node" /\ t.br[j].d = d - 1}
                parent == CHOOSE j \in P : \A i \in P : i <= j
            IN Append(PathOf(t, parent), sibsBefore)
WalkPaths(t) == [k \in DOMAIN t.br |-> PathOf(t, k)]
NodeVarsSeq(t) == LET nl == NodeList(t) IN SelectSeq([i \in DOMAIN nl |-> nl[i][1]], LAMBDA x : x # NULL)
SameTripleSet(a, b) == {a[i] : i \in DOMAIN a} = {b[i] : i \in DOMAIN b}
First(cs) == LET S == {i \in DOMAIN cs : ~cs[i][2]} IN IF S = {} THEN <<"ACCEPT", "">> ELSE <<"REJECT", cs[CHOOSE i \in S : \A j \in S : i <= j][1]>>
TreeV == First(<<
    <<"nodes-in-depth-first-order", T.nodes = NodeVarsSeq(T.tree)>>,
    <<"walk-paths", T.walk = WalkPaths(T.tree)>>,
    <<"tree-equality-ignores-metadata", T.eq_without_meta /\ T.eq_self>> >>)
GraphV == First(<<
    <<"graph-equality", T.eq = (T.a.top = T.b.top /\ Len(T.a.tr) = Len(T.b.tr) /\ SameTripleSet(T.a.tr, T.b.tr))>> >>)
AlnV == First(<<
    <<"alignment-text-normal-form", T.str = "~" \o NormAln(T.text)>>,
    <<"alignment-prefix", T.prefix = (IF Ch(T.text, 1) \in Letters THEN (IF Len(T.text) >= 2 /\ Ch(T.text, 2) = "." THEN SubSeq(T.text, 1, 2) ELSE SubSeq(T.text, 1, 1)) ELSE "")>> >>)
V == CASE T.kind = "api-tree" -> TreeV [] T.kind = "api-graph-eq" -> GraphV [] T.kind = "api-aln" -> AlnV
Init == tid \in 1..Len(Traces) /\ step = 0 /\ verdict = <<"pending", "">>
Judge == step = 0 /\ step' = 1 /\ verdict' = V /\ UNCHANGED tid
Spec == Init /\ [][Judge]_<<tid, step, verdict>>
Out == step = 1 => PrintT("V|" \o ToString(tid) \o "|" \o verdict[1] \o "|" \o verdict[2])
=============================================================================
