------------------------------- MODULE J_Api -------------------------------
(***************************************************************************)
(* Behaviour of the API surface that no listed property speaks about, added  *)
(* as the specification grows (verdicts are reported as drift, never as      *)
(* violations): Tree.nodes and Tree.walk (depth-first order, 0-based branch   *)
(* paths), Tree equality (metadata is not compared), Graph equality (same top *)
(* and the same set of triples, same length), alignment markers from and to   *)
(* text, the text of a decode error, model equality and Model.from_dict, and  *)
(* the command's answers to argument errors.                                  *)
(***************************************************************************)
EXTENDS Relabel, IOUtils
Traces == ndJsonDeserialize(IOEnv.TRACE_FILE)
VARIABLES tid, step, verdict
T == Traces[tid]
\* paths of the branches in depth-first order: the path of a branch extends the path of the branch that opened its node
RECURSIVE PathOf(_, _)
PathOf(t, k) ==
    LET d == t.br[k].d
        sibsBefore == Cardinality({j \in 1..(k - 1) : t.br[j].d = d /\ \A i \in (j + 1)..(k - 1) : t.br[i].d >= d})
    IN IF d = 0 THEN <<sibsBefore>>
       ELSE LET P == {j \in 1..(k - 1) : t.br[j].kind = "node" /\ t.br[j].d = d - 1}
                parent == CHOOSE j \in P : \A i \in P : i <= j
            IN Append(PathOf(t, parent), sibsBefore)
WalkPaths(t) == [k \in DOMAIN t.br |-> PathOf(t, k)]
NodeVarsSeq(t) == LET nl == NodeList(t) IN SelectSeq([i \in DOMAIN nl |-> nl[i][1]], LAMBDA x : x # NULL)
SameTripleSet(a, b) == {a[i] : i \in DOMAIN a} = {b[i] : i \in DOMAIN b}
First(cs) == LET S == {i \in DOMAIN cs : ~cs[i][2]} IN IF S = {} THEN <<"ACCEPT", "">> ELSE <<"REJECT", cs[CHOOSE i \in S : \A j \in S : i <= j][1]>>
\* str(tree) and repr(tree): the nested (variable, branches) structure in Python's notation, two more columns per level
PyPlain(x) == x = NULL \/ \A i \in 1..Len(x) : Ch(x, i) \in DOMAIN AsciiRank /\ Ch(x, i) \notin {"'", "\\"}
PyRepr(x) == IF x = NULL THEN "None" ELSE "'" \o x \o "'"
RECURSIVE SNode(_, _, _, _, _, _), SBranches(_, _, _, _, _, _)
\* pretty = TRUE: one branch per line (str); FALSE: Python's own repr of the nested tuples and lists
SNode(t, k, d, var, level, pretty) ==
    LET nl == level + 2
        ind == IF pretty THEN SC.lf \o Spaces(nl) ELSE ""
        r == SBranches(t, k, d, nl, <<>>, pretty)
    IN <<"(" \o PyRepr(var) \o ", [" \o ind \o Join(r[1], IF pretty THEN "," \o ind ELSE ", ") \o "])", r[2]>>
SBranches(t, k, d, level, parts, pretty) ==
    IF k > Len(t.br) \/ t.br[k].d # d THEN <<parts, k>>
    ELSE LET b == t.br[k] IN
         IF b.kind = "node"
         THEN LET n == SNode(t, k + 1, d + 1, b.val, level, pretty) IN
              SBranches(t, n[2], d, level, Append(parts, "(" \o PyRepr(b.role) \o ", " \o n[1] \o ")"), pretty)
         ELSE SBranches(t, k + 1, d, level, Append(parts, "(" \o PyRepr(b.role) \o ", " \o PyRepr(b.val) \o ")"), pretty)
TreeStr(t) == "Tree(" \o SC.lf \o "  " \o SNode(t, 1, 0, t.top, 2, TRUE)[1] \o ")"
TreeRepr(t) == "Tree(" \o SNode(t, 1, 0, t.top, 2, FALSE)[1] \o ")"
AllPlain(t) == PyPlain(t.top) /\ \A k \in DOMAIN t.br : PyPlain(t.br[k].role) /\ PyPlain(t.br[k].val)
TreeV == First(<<
    <<"tree-str", ~AllPlain(T.tree) \/ T.str = TreeStr(T.tree)>>,
    <<"tree-repr", ~AllPlain(T.tree) \/ T.repr = TreeRepr(T.tree)>>,
    <<"nodes-in-depth-first-order", T.nodes = NodeVarsSeq(T.tree)>>,
    <<"walk-paths", T.walk = WalkPaths(T.tree)>>,
    <<"tree-equality-ignores-metadata", T.eq_without_meta /\ T.eq_self>> >>)
GraphV == First(<<
    <<"graph-equality", T.eq = (T.a.top = T.b.top /\ Len(T.a.tr) = Len(T.b.tr) /\ SameTripleSet(T.a.tr, T.b.tr))>> >>)
AlnV == First(<<
    <<"alignment-text-normal-form", T.str = "~" \o NormAln(T.text)>>,
    <<"alignment-prefix", T.prefix = (IF Ch(T.text, 1) \in Letters THEN (IF Len(T.text) >= 2 /\ Ch(T.text, 2) = "." THEN SubSeq(T.text, 1, 2) ELSE SubSeq(T.text, 1, 1)) ELSE "")>> >>)
(* ---- the text of a decode error (docs/api/penman.exceptions.rst; Python's own layout for syntax errors) ---- *)
\* T: e = [message, filename, lineno, offset, text] (each the written value or NULL), off (the offset as a number, 0 if none), str
RECURSIVE NSpaces(_)
NSpaces(n) == IF n = 0 THEN "" ELSE " " \o NSpaces(n - 1)
RECURSIVE JoinBy(_, _)
JoinBy(ps, sep) == IF ps = <<>> THEN "" ELSE IF Len(ps) = 1 THEN ps[1] ELSE ps[1] \o sep \o JoinBy(Tail(ps), sep)
ErrStr(e, off) ==
    LET loc == (IF e.filename # NULL THEN <<"File \"" \o e.filename \o "\"">> ELSE <<>>) \o (IF e.lineno # NULL THEN <<"line " \o e.lineno>> ELSE <<>>)
        head == IF loc # <<>> THEN <<"", "  " \o JoinBy(loc, ", ")>> ELSE <<>>
        body == IF e.text # NULL THEN head \o <<"    " \o e.text>> \o (IF e.offset # NULL THEN <<"    " \o NSpaces(off) \o "^">> ELSE <<>>)
                ELSE IF head # <<>> THEN <<"", head[2] \o ", character " \o (IF e.offset = NULL THEN "None" ELSE e.offset)>>
                ELSE <<>>
        tail == IF e.message # NULL THEN <<"DecodeError: " \o e.message>> ELSE <<>>
    IN JoinBy(body \o tail, SC.lf)
ErrV == First(<<
    <<"decode-error-text", T.str = ErrStr(T.e, T.off)>>,
    \* an error raised by the parser points at the reported column of the reported line
    <<"raised-error-carries-its-line", (T.raised /\ \E i \in 1..Len(T.input) : Ch(T.input, i) \notin Blanks) => (T.e.lineno # NULL /\ T.e.offset # NULL /\ T.e.text # NULL /\ T.e.filename = NULL)>> >>)

(* ---- Model.from_dict and Model equality: two models are equal iff they were built from equal tables ---- *)
\* T: same (the two descriptions are the same tables), eq (impl ==), eq_from_dict (Model(**d) == Model.from_dict(d)), neq_other (model != a non-model)
ModelV == First(<<
    <<"from-dict-is-the-constructor", T.eq_from_dict>>,
    <<"model-equality-is-equality-of-tables", T.eq = T.same>>,
    <<"a-model-never-equals-something-else", T.neq_other>> >>)

(* ---- the command line: argument errors (docs/command.rst usage) ---- *)
\* T: args, class in {"usage", "indent", "version", "run"} decided below from the arguments, exit, out (stdout), err_nonempty
BadIndent(v) == ~(v \in {"no", "No", "NONE", "none", "false", "False"}) /\ ~(v \in {"-1", "0", "1", "2", "3", "10"})
ArgClass == IF \E i \in DOMAIN T.args : T.args[i] \in {"-V", "--version"} THEN "version"
            ELSE IF T.usage_error THEN "usage"
            ELSE IF \E i \in DOMAIN T.args : StartsWith(T.args[i], "--indent=") /\ BadIndent(SubSeq(T.args[i], 10, Len(T.args[i]))) THEN "indent"
            ELSE "run"
ArgsV == First(<<
    <<"version-exits-0-and-prints", ArgClass = "version" => (T.exit = 0 /\ StartsWith(T.out, "Penman v"))>>,
    <<"usage-error-exits-2-without-output", ArgClass = "usage" => (T.exit = 2 /\ T.out = "" /\ T.err_nonempty)>>,
    <<"bad-indent-exits-nonzero-without-output", ArgClass = "indent" => (T.exit # 0 /\ T.out = "" /\ T.err_nonempty)>>,
    <<"valid-arguments-run", ArgClass = "run" => T.exit = 0>> >>)

V == CASE T.kind = "api-tree" -> TreeV [] T.kind = "api-graph-eq" -> GraphV [] T.kind = "api-aln" -> AlnV
       [] T.kind = "api-errstr" -> ErrV [] T.kind = "api-model-eq" -> ModelV [] T.kind = "api-args" -> ArgsV
Init == tid \in 1..Len(Traces) /\ step = 0 /\ verdict = <<"pending", "">>
Judge == step = 0 /\ step' = 1 /\ verdict' = V /\ UNCHANGED tid
Spec == Init /\ [][Judge]_<<tid, step, verdict>>
Out == step = 1 => PrintT("V|" \o ToString(tid) \o "|" \o verdict[1] \o "|" \o verdict[2])
=============================================================================
