------------------------------- MODULE MC_Transform -------------------------------
(* Program machine for properties C11 / C12: the start graph is the reading of any  *)
(* well-formed tree up to MaxBr branches over a MiniAMR-like inventory (reifiable    *)
(* roles on edges and attributes, written inverted or not, an aligned role, a        *)
(* pre-existing variable "_"), optionally with its markers stripped; the program is  *)
(* any sequence of up to MaxP transformations that indicates branches at most once.  *)
EXTENDS Transform
CONSTANTS MaxBr, MaxP
VARIABLES tree, g, g0, prog, phase
vars == <<tree, g, g0, prog, phase>>
M == Models["miniamr"]
NVars == {"b", "_"}
TRoles == {":mod", ":ARG0", ":mod-of", ":accompanier~e.1"}
TAtoms == {"x", "a"}
MaxD(t) == IF Len(t.br) = 0 THEN 0 ELSE LET l == t.br[Len(t.br)] IN IF l.kind = "node" THEN l.d + 1 ELSE l.d
ConceptSlot(t, d) == IF Len(t.br) = 0 THEN d = 0 ELSE LET l == t.br[Len(t.br)] IN l.kind = "node" /\ d = l.d + 1
Br(d, role, kind, val) == [d |-> d, role |-> role, kind |-> kind, val |-> val]
Ops == {"reify_edges", "dereify_edges", "reify_attributes", "indicate_branches"}
Init == tree = [top |-> "a", br |-> <<>>, meta |-> <<>>] /\ g = <<>> /\ g0 = <<>> /\ prog = <<>> /\ phase = "build"
Grow(t2) == phase = "build" /\ Len(tree.br) < MaxBr /\ tree' = t2 /\ UNCHANGED <<g, g0, prog, phase>>
Read == /\ phase = "build" /\ WellFormedTree(tree, M)
        /\ \E strip \in BOOLEAN :
             LET r == Interpret(tree, M)
                 s == [top |-> r.top, tr |-> r.tr, epi |-> IF strip THEN [i \in DOMAIN r.tr |-> <<>>] ELSE r.epi]
             IN g' = s /\ g0' = s
        /\ phase' = "run" /\ UNCHANGED <<tree, prog>>
Do == /\ phase = "run" /\ Len(prog) < MaxP
      /\ \E op \in Ops :
           /\ (op = "indicate_branches" => \A i \in DOMAIN prog : prog[i] # op)
           /\ g' = Step(g, M, op) /\ prog' = Append(prog, op)
      /\ UNCHANGED <<tree, g0, phase>>
Next == \/ \E d \in 0..MaxD(tree), cc \in {"A", "have-mod-91"} : ConceptSlot(tree, d) /\ Grow([tree EXCEPT !.br = Append(@, Br(d, "/", "atom", cc))])
        \/ \E d \in 0..MaxD(tree), r \in TRoles, a \in TAtoms : Grow([tree EXCEPT !.br = Append(@, Br(d, r, "atom", a))])
        \/ \E d \in 0..MaxD(tree), r \in TRoles, v \in NVars \ NodeVars(tree) : d < 2 /\ Grow([tree EXCEPT !.br = Append(@, Br(d, r, "node", v))])
        \/ Read \/ Do
Spec == Init /\ [][Next]_vars
R == phase = "run"
SameTop == R => g.top = g0.top
StaysWellFormed == R => WellFormedGraph(g)
StaysConnected == R => Connected(g, g.top)
MarkersAligned == R => Len(g.epi) = Len(g.tr)
\* after reifying attributes no attribute is left and contracting the new nodes gives the previous triples
AttrClauses == [][(R /\ phase' = "run" /\ Len(prog') > Len(prog) /\ prog'[Len(prog')] = "reify_attributes") =>
                    (NoAttributes(g') /\ ContractAttrs(g', Vars(g') \ Vars(g)) = g.tr)]_vars
BranchClauses == [][(R /\ phase' = "run" /\ Len(prog') > Len(prog) /\ prog'[Len(prog')] = "indicate_branches") =>
                    (WithoutTop(g') = g.tr /\
                     Len(g'.tr) - Len(g.tr) = Cardinality({i \in DOMAIN g.tr : FirstPush(g.epi[i], 1) # NULL /\ FirstPush(g.epi[i], 1) \in {g.tr[i][1], g.tr[i][3]}}))]_vars
\* C11 on the specification: reify then dereify is the identity (triples and markers) on graphs without a collapsible node
InverseLaw == (R /\ prog = <<>> /\ DereifyEdges(g, M).tr = g.tr) =>
                 LET h == ReifyEdges(g, M) IN
                 /\ \A i \in DOMAIN h.tr : ~Reifiable(M, h.tr[i][2])
                 /\ DereifyEdges(h, M).tr = g.tr
                 /\ (\A i \in DOMAIN g.epi : g.epi[i] # <<>> \/ i = i) /\ [i \in DOMAIN g.tr |-> OnlyAligns(DereifyEdges(h, M).epi[i])] = [i \in DOMAIN g.tr |-> OnlyAligns(g.epi[i])]
NeverCollapsesTopOrShared == R => \A v \in Collapsed(g, M) : v # g.top /\ Len(Others(g, v)) = 2 /\ \A i \in DOMAIN g.tr : g.tr[i][2] = ConceptRole \/ g.tr[i][3] # v
=============================================================================
