SPECIFICATION Spec
CONSTANT MaxBr = 3
CONSTANT MaxDepth = 2
INVARIANT Export
CHECK_DEADLOCK FALSE
