SPECIFICATION Spec
CONSTANT MaxLen = 7
INVARIANT AcceptIffDerivable
INVARIANT ConsumedSpanDerives
INVARIANT ErrorAtFirstFailure
INVARIANT EofMeansViable
INVARIANT TreeMatchesTokens
INVARIANT StreamConsistent
CHECK_DEADLOCK FALSE
