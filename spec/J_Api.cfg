SPECIFICATION Spec
INVARIANT Out
CHECK_DEADLOCK FALSE
