------------------------------- MODULE Relabel -------------------------------
(***************************************************************************)
(* Tree.reset_variables(fmt): new variables are generated per node in       *)
(* depth-first order from the node's concept: prefix = first alphabetic     *)
(* character of the concept, lower-cased ("_" if none); i = 0-based index   *)
(* of the candidate, j = "" for the first candidate and i+1 afterwards; the *)
(* first candidate not used yet is taken.  The map is applied to every node *)
(* variable and to every reference (an atomic non-concept target whose      *)
(* text, without alignment suffix, is a mapped variable).                   *)
(* A format is a sequence of pieces: "{prefix}", "{i}", "{j}" or literals.  *)
(***************************************************************************)
EXTENDS Interpret

LowerTable == [c \in Upper |->
    CASE c = "A" -> "a" [] c = "B" -> "b" [] c = "C" -> "c" [] c = "D" -> "d" [] c = "E" -> "e" [] c = "F" -> "f" [] c = "G" -> "g"
      [] c = "H" -> "h" [] c = "I" -> "i" [] c = "J" -> "j" [] c = "K" -> "k" [] c = "L" -> "l" [] c = "M" -> "m" [] c = "N" -> "n"
      [] c = "O" -> "o" [] c = "P" -> "p" [] c = "Q" -> "q" [] c = "R" -> "r" [] c = "S" -> "s" [] c = "T" -> "t" [] c = "U" -> "u"
      [] c = "V" -> "v" [] c = "W" -> "w" [] c = "X" -> "x" [] c = "Y" -> "y" [] c = "Z" -> "z"]
\* alphabetic characters known to the specification, with their lower case
AlphaLower(c) == IF c \in Lower THEN c ELSE IF c \in Upper THEN LowerTable[c]
                 ELSE IF c \in {SC.eacute, SC.Eacute} THEN SC.eacute
                 ELSE IF c \in {SC.uuml, SC.Uuml} THEN SC.uuml
                 ELSE IF c = SC.iuml THEN c
                 ELSE IF c \in {SC.cjk, SC.cyr} THEN c ELSE ""
KnownNonAlpha(c) == c \in DOMAIN AsciiRank \ Letters \/ c \in PyWS \/ c \in {SC.nul, SC.bs, SC.del, SC.esc, SC.bel, SC.zwsp}
\* <<known, prefix>>: the first alphabetic character, lower-cased; "_" if there is none
RECURSIVE PrefixFrom(_, _)
PrefixFrom(c, i) == IF i > Len(c) THEN <<TRUE, "_">>
                    ELSE IF AlphaLower(Ch(c, i)) # "" THEN <<TRUE, AlphaLower(Ch(c, i))>>
                    ELSE IF KnownNonAlpha(Ch(c, i)) THEN PrefixFrom(c, i + 1)
                    ELSE <<FALSE, "_">>
PrefixOf(concept) == IF concept = NULL THEN <<TRUE, "_">> ELSE PrefixFrom(concept, 1)

Piece(p, pre, i) == CASE p = "{prefix}" -> pre
                      [] p = "{i}" -> ToString(i)
                      [] p = "{j}" -> (IF i = 0 THEN "" ELSE ToString(i + 1))
                      [] OTHER -> p
RECURSIVE FmtPieces(_, _, _, _)
FmtPieces(fmt, k, pre, i) == IF k > Len(fmt) THEN "" ELSE Piece(fmt[k], pre, i) \o FmtPieces(fmt, k + 1, pre, i)
HasIndex(fmt) == \E k \in DOMAIN fmt : fmt[k] \in {"{i}", "{j}"}

\* nodes in depth-first order as <<variable, concept text or NULL>>
ConceptAt(t, k, d) == IF k <= Len(t.br) /\ t.br[k].d = d /\ t.br[k].role = "/" THEN t.br[k].val ELSE NULL
\* the first branch of the node with role "/" (only the first position can hold it in grammar-valid trees)
NodeList(t) == <<<<t.top, ConceptAt(t, 1, 0)>>>> \o
               LET nb == SelectSeq([k \in DOMAIN t.br |-> k], LAMBDA k : t.br[k].kind = "node") IN
               [j \in DOMAIN nb |-> <<t.br[nb[j]].val, ConceptAt(t, nb[j] + 1, t.br[nb[j]].d + 1)>>]

\* the naming loop: first candidate (i = 0, 1, ...) not yet used; <<ok, name>>; not ok when the candidates never change
RECURSIVE FirstFree(_, _, _, _)
FirstFree(fmt, pre, used, i) ==
    LET c == FmtPieces(fmt, 1, pre, i) IN
    IF c \notin used THEN <<TRUE, c>>
    ELSE IF ~HasIndex(fmt) THEN <<FALSE, c>>           \* same candidate forever: the loop cannot end (finding F15)
    ELSE FirstFree(fmt, pre, used, i + 1)
RECURSIVE Plan(_, _, _, _, _)
\* map as a sequence of <<old, new>> in order of assignment
Plan(nodes, k, fmt, pairs, used) ==
    IF k > Len(nodes) THEN [ok |-> TRUE, known |-> TRUE, pairs |-> pairs]
    ELSE IF \E q \in DOMAIN pairs : pairs[q][1] = nodes[k][1] THEN Plan(nodes, k + 1, fmt, pairs, used)
    ELSE LET pf == PrefixOf(nodes[k][2]) IN
         IF ~pf[1] THEN [ok |-> TRUE, known |-> FALSE, pairs |-> pairs]
         ELSE LET f == FirstFree(fmt, pf[2], used, 0) IN
              IF ~f[1] THEN [ok |-> FALSE, known |-> TRUE, pairs |-> pairs]
              ELSE Plan(nodes, k + 1, fmt, Append(pairs, <<nodes[k][1], f[2]>>), used \cup {f[2]})
PairsToMap(pairs) == [x \in {pairs[i][1] : i \in DOMAIN pairs} |-> pairs[CHOOSE i \in DOMAIN pairs : pairs[i][1] = x][2]]
RelabelPlan(t, fmt) == LET p == Plan(NodeList(t), 1, fmt, <<>>, {}) IN
                       [ok |-> p.ok, known |-> p.known, map |-> PairsToMap(p.pairs)]

\* the map actually applied, read off the two trees: k-th node variable before |-> k-th node variable after
ObservedPairs(before, after) ==
    LET nb == NodeList(before)  na == NodeList(after) IN
    IF Len(nb) # Len(na) THEN <<>> ELSE [k \in DOMAIN nb |-> <<nb[k][1], na[k][1]>>]
IsFunction(pairs) == \A i, j \in DOMAIN pairs : pairs[i][1] = pairs[j][1] => pairs[i][2] = pairs[j][2]
IsInjective(pairs) == \A i, j \in DOMAIN pairs : pairs[i][2] = pairs[j][2] => pairs[i][1] = pairs[j][1]

Ren(map, x) == IF x \in DOMAIN map THEN map[x] ELSE x
RenAtom(map, text) == IF text = NULL \/ StartsWith(text, "\"") THEN text
                      ELSE LET sa == SplitAtom(text) IN
                           IF sa[1] \in DOMAIN map THEN map[sa[1]] \o (IF sa[2] = "" /\ ~HasChar(text, "~") THEN "" ELSE "~" \o sa[2]) ELSE text
ApplyRelabel(t, map) ==
    [t EXCEPT !.top = Ren(map, t.top),
              !.br = [k \in DOMAIN t.br |->
                        IF t.br[k].kind = "node" THEN [t.br[k] EXCEPT !.val = Ren(map, @)]
                        ELSE IF t.br[k].role = "/" THEN t.br[k]
                        ELSE [t.br[k] EXCEPT !.val = RenAtom(map, @)]]]
\* some constant is spelled like a newly generated name (then relabelling creates a re-entrancy)
RelabelCollides(t, map) ==
    LET new == {map[x] : x \in DOMAIN map} IN
    \E k \in DOMAIN t.br : t.br[k].kind = "atom" /\ t.br[k].role # "/" /\ t.br[k].val # NULL /\
        LET stem == SplitAtom(t.br[k].val)[1] IN stem \notin DOMAIN map /\ stem \in new
=============================================================================
