SPECIFICATION Spec
CONSTANT MaxT = 1
CONSTANT MaxT2 = 1
CONSTANT MaxH = 3
INVARIANT Export
CHECK_DEADLOCK FALSE
