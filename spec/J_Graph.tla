------------------------------- MODULE J_Graph -------------------------------
(* Trace judge for the Graph object (C15): a recorded history of operator calls   *)
(* on a pool of real Graph objects is replayed with the specification's Apply;    *)
(* after every call every object's state and the value of every query are          *)
(* compared.                                                                        *)
EXTENDS Graph, IOUtils
Traces == ndJsonDeserialize(IOEnv.TRACE_FILE)
VARIABLES tid, k, pool, amb, verdict
vars == <<tid, k, pool, amb, verdict>>
T == Traces[tid]
Tag(n) == <<Mk("align", ToString(n))>>
RECURSIVE Dedup(_, _, _)
Dedup(s, i, acc) == IF i > Len(s) THEN acc ELSE Dedup(s, i + 1, IF InSeq(s[i], acc) THEN acc ELSE Append(acc, s[i]))
DD(s) == Dedup(s, 1, <<>>)
Filters == <<<<"a", NULL, NULL>>, <<NULL, ":r", NULL>>, <<NULL, NULL, "b">>, <<"b", ":r", "a">>, <<NULL, NULL, "x">>,
            <<NULL, ":instance", NULL>>, <<"a", ":instance", "a">>, <<NULL, ":instance", "b">>,
            <<NULL, NULL, "">>, <<"", NULL, NULL>>>>   \* (the concept role as a criterion; a criterion that is given but empty selects nothing)

SpecAct(a, n) == IF a.op = "new"
                 THEN [op |-> "new", g |-> MkGraph(a.tr, a.xtop, [i \in DOMAIN a.tr |-> Tag(n)])]
                 ELSE a
\* triples whose markers the property does not determine (common to both operands of a union with different markers)
AmbAfter(a, p, am, r) ==
    CASE a.op \in {"or", "ior"} ->
            LET x == p[a.i]  y == p[a.j]
                nu == am[a.i] \cup am[a.j] \cup {t \in Range(x.tr) \cap Range(y.tr) : EpiAt(x, t) # EpiAt(y, t)}
            IN IF a.op = "or" THEN Append(am, nu) ELSE [am EXCEPT ![a.i] = nu]
      [] a.op = "sub" -> Append(am, am[a.i])
      \* markers handed to the constructor under a key whose role lacks its colon: the triple is stored with the colon, and
      \* whether the markers are then found under it is stated by no property (the pinned library does not look them up)
      [] a.op = "new" -> Append(am, {ColonRole(t) : t \in {x \in Range(a.tr) : ColonRole(x) # x}})
      [] OTHER -> am

\* compare one logged object with the specification's object; "" if all clauses hold
CmpG(g, lg, am) ==
    IF DD(lg.tr) # DD(g.tr) THEN "triple-list"
    ELSE IF lg.xtop # g.xtop THEN "explicit-top"
    ELSE IF \E i \in DOMAIN lg.tr : lg.tr[i] \notin am /\ lg.epi[i] # EpiAt(g, lg.tr[i]) THEN "markers-carried-with-triples"
    ELSE IF lg.top # GTop(g) THEN "top-query"
    ELSE IF Range(lg.vars) # GVars(g) THEN "variables"
    ELSE IF DD(lg.inst) # DD(Instances(g)) THEN "instances"
    ELSE IF DD(lg.edges) # DD(Edges(g, NoFilter)) THEN "edges"
    ELSE IF DD(lg.attrs) # DD(Attributes(g, NoFilter)) THEN "attributes"
    ELSE IF Len(lg.inst) + Len(lg.edges) + Len(lg.attrs) # Len(lg.tr) THEN "partition"
    ELSE IF {<<lg.reent[i][1], lg.reent[i][2]>> : i \in DOMAIN lg.reent} # Reentrancies(g) THEN "reentrancies"
    ELSE IF \E f \in DOMAIN Filters : DD(lg.fe[f]) # DD(Edges(g, Filters[f])) \/ DD(lg.fa[f]) # DD(Attributes(g, Filters[f])) THEN "filters"
    ELSE ""
Exact(g, lg) == lg.tr = g.tr /\ \A i \in DOMAIN lg.tr : lg.epi[i] = EpiAt(g, lg.tr[i])

Init == tid \in 1..Len(Traces) /\ k = 0 /\ pool = <<>> /\ amb = <<>> /\ verdict = <<"pending", "">>
\* one step of the trace specification per recorded call: apply the same action, then compare
Step == /\ verdict[1] = "pending" /\ k < Len(T.acts)
        /\ LET a == SpecAct(T.acts[k + 1], Len(pool) + 1)
               r == Apply(pool, a)
               am == AmbAfter(T.acts[k + 1], pool, amb, r)
               L == T.steps[k + 1]
               bad == IF L.res # r.res THEN "result-or-refusal expected " \o r.res \o " got " \o L.res \o " @ step " \o ToString(k + 1) \o " " \o T.acts[k + 1].op
                      ELSE IF Len(L.pool) # Len(r.pool) THEN "pool-size"
                      ELSE LET S == {i \in DOMAIN r.pool : CmpG(r.pool[i], L.pool[i], am[i]) # ""} IN
                           IF S = {} THEN "" ELSE LET i == CHOOSE x \in S : \A y \in S : x <= y IN
                                CmpG(r.pool[i], L.pool[i], am[i]) \o " @ step " \o ToString(k + 1) \o " " \o T.acts[k + 1].op \o " object " \o ToString(i)
           IN /\ pool' = r.pool /\ amb' = am /\ k' = k + 1
              /\ verdict' = IF bad # "" THEN <<"REJECT", bad>>
                            ELSE IF k + 1 = Len(T.acts)
                                 THEN (IF \A i \in DOMAIN r.pool : Exact(r.pool[i], L.pool[i]) THEN <<"ACCEPT", "">>
                                       ELSE <<"DRIFT", "multiplicity of duplicates or markers of common triples differ (O6)">>)
                                 ELSE verdict
        /\ UNCHANGED tid
Empty == verdict[1] = "pending" /\ Len(T.acts) = 0 /\ verdict' = <<"ACCEPT", "">> /\ UNCHANGED <<tid, k, pool, amb>>
Next == Step \/ Empty
Spec == Init /\ [][Next]_vars
Out == verdict[1] # "pending" => PrintT("V|" \o ToString(tid) \o "|" \o verdict[1] \o "|" \o verdict[2])
=============================================================================
