SPECIFICATION Spec
CONSTANT GUARD = TRUE
CONSTANT MAXX = 4
CONSTANT MODE = "roundtrip"
CONSTANT defaultInitValue = defaultInitValue
INVARIANT PostRT
INVARIANT RoundsBounded
PROPERTY Termination
CHECK_DEADLOCK FALSE
