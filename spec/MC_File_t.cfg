SPECIFICATION Spec
CONSTANT MaxOps = 8
VIEW NoHistory
INVARIANT ReadYourLastWrite
PROPERTY OtherPathUntouched
CHECK_DEADLOCK FALSE
