SPECIFICATION Spec
CONSTANT MaxCalls = 4
CONSTANT MaxPool = 7
INVARIANT FunctionOfArgs
PROPERTY PureFrame
PROPERTY InPlaceFrame
CHECK_DEADLOCK FALSE
