------------------------------- MODULE J_Stream -------------------------------
(* Trace judge for containers and stream framing (C09).                         *)
EXTENDS Stream, IOUtils
Traces == ndJsonDeserialize(IOEnv.TRACE_FILE)
VARIABLES tid, step, ra, verdict
vars == <<tid, step, ra, verdict>>
T == Traces[tid]
M == Models[T.model]
Acc == <<"ACCEPT", "">>
SameG(g, lg) == lg.top = g.top /\ lg.tr = g.tr /\ SameMeta(lg.meta, g.meta)
SameMarkers(g, lg) == lg.epi = EpiView(g)
SameSeq(gs, lgs) == Len(gs) = Len(lgs) /\ \A i \in DOMAIN gs : SameG(gs[i], lgs[i])
SameLogged(a, b) == Len(a) = Len(b) /\ \A i \in DOMAIN a : a[i].top = b[i].top /\ a[i].tr = b[i].tr /\ SameMeta(a[i].meta, b[i].meta)

(* ---------------- kind = "stream" ---------------- *)
StrA == LET o == Outcome(T.text, "str") IN [ok |-> o.ok, gs |-> GraphsOf(o.trees, M)]
\* a list-returning loader gives nothing on error, an iterator gives the graphs before the error: both are prefixes
IsPrefix(gs, lgs) == Len(lgs) <= Len(gs) /\ \A i \in DOMAIN lgs : SameG(gs[i], lgs[i])
\* Where the reference reading accepts the text, every container gives exactly its graphs.  Where it does not (the text is
\* then outside the property's quantifier: not a sequence of graphs), the property still asks the containers to agree with
\* each other: all fail (having produced a prefix of the reference graphs) or all succeed with the same graphs.
AllOK == \A i \in DOMAIN T.outs : T.outs[i].ok
StrV(a) ==
    LET bad == {i \in DOMAIN T.outs :
                   \/ T.outs[i].exc \notin {"", "DecodeError"}
                   \/ (a.ok /\ ~T.outs[i].ok)
                   \/ (~a.ok /\ T.outs[i].ok # T.outs[1].ok)
                   \/ (a.ok /\ ~SameSeq(a.gs, T.outs[i].graphs))
                   \/ (~a.ok /\ ~T.outs[i].ok /\ ~IsPrefix(a.gs, T.outs[i].graphs))
                   \/ (~a.ok /\ AllOK /\ ~SameLogged(T.outs[i].graphs, T.outs[1].graphs))}
    IN IF bad # {} THEN LET i == CHOOSE x \in bad : \A y \in bad : x <= y IN
            <<"REJECT", (IF T.outs[i].exc \notin {"", "DecodeError"} THEN "exception-class " \o T.outs[i].exc
                         ELSE IF (a.ok /\ ~T.outs[i].ok) \/ (~a.ok /\ T.outs[i].ok # T.outs[1].ok) THEN "acceptance-differs-between-containers"
                         ELSE "graphs-differ-between-containers") \o " @ " \o T.outs[i].c>>
       ELSE IF ~a.ok /\ AllOK THEN <<"DRIFT", "every container accepts a text the reference reading rejects">>
       ELSE IF a.ok /\ \E i \in DOMAIN T.outs : \E k \in DOMAIN a.gs : ~SameMarkers(a.gs[k], T.outs[i].graphs[k])
            THEN <<"DRIFT", "markers differ from the reference reading">>
       ELSE Acc

(* ---------------- kind = "dumps" ---------------- *)
\* T: graphs (logged), variants: [{how, text, back: {ok, exc, graphs}}]
DmpA == [i \in DOMAIN T.variants |-> LET o == Outcome(T.variants[i].text, "str") IN [ok |-> o.ok, gs |-> GraphsOf(o.trees, M)]]
DmpWF == \A i \in DOMAIN T.texts : LET r == Parse(Lex(T.texts[i], FALSE)) IN r.ok /\ GrammarValidTree(r.tree) /\ WellFormedTree(r.tree, M)
DmpV(a) ==
    IF ~DmpWF THEN <<"NA", "a graph does not come from a well-formed tree under the model">> ELSE
    LET bad == {i \in DOMAIN T.variants :
                   \/ ~T.variants[i].back.ok
                   \/ ~SameLogged(T.variants[i].back.graphs, T.graphs)
                   \/ ~a[i].ok \/ ~SameSeq(a[i].gs, T.graphs)}
    IN IF bad # {} THEN LET i == CHOOSE x \in bad : \A y \in bad : x <= y IN
            <<"REJECT", (IF ~T.variants[i].back.ok THEN "load-failed " \o T.variants[i].back.exc
                         ELSE IF ~SameLogged(T.variants[i].back.graphs, T.graphs) THEN "loaded-graphs-differ"
                         ELSE "text-does-not-mean-the-graphs") \o " @ " \o T.variants[i].how>>
       ELSE Acc

(* ---------------- kind = "bigstream" ---------------- *)
\* A long stream given as its per-graph texts (COMMENT* Node each) joined by a separator that ends the line: its reading is the
\* concatenation of the readings of the texts (MC_Stream!RoundTrip establishes that law on the bounded instance).
\* T: texts, first: {ok, exc, graphs} (the string container in full), outs: per container {c, ok, exc, digests of the graphs}
RECURSIVE ConcatGraphs(_, _)
ConcatGraphs(ts, i) == IF i > Len(ts) THEN [ok |-> TRUE, gs |-> <<>>]
                       ELSE LET o == Outcome(ts[i], "str")  r == ConcatGraphs(ts, i + 1) IN
                            [ok |-> o.ok /\ Len(o.trees) = 1 /\ r.ok, gs |-> GraphsOf(o.trees, M) \o r.gs]
BigA == ConcatGraphs(T.texts, 1)
BigV(a) ==
    IF ~a.ok THEN <<"NA", "a text of the stream is not one graph">>
    ELSE IF ~T.first.ok THEN <<"REJECT", "load-failed " \o T.first.exc \o " @ " \o T.outs[1].c>>
    ELSE IF ~SameSeq(a.gs, T.first.graphs) THEN <<"REJECT", "graphs-differ-from-the-reading-of-the-texts @ " \o T.outs[1].c>>
    ELSE LET bad == {i \in DOMAIN T.outs : ~T.outs[i].ok \/ T.outs[i].digests # T.outs[1].digests} IN
         IF bad # {} THEN LET i == CHOOSE x \in bad : \A y \in bad : x <= y IN
              <<"REJECT", (IF ~T.outs[i].ok THEN "acceptance-differs-between-containers" ELSE "graphs-differ-between-containers") \o " @ " \o T.outs[i].c>>
         ELSE Acc

(* ---------------- kind = "filehist" ---------------- *)
\* A history of dumps and loads on two paths (generated by MC_File): every load returns the graphs of the last dump to its path.
\* T: hist: [{op, path, texts}], steps: [{ok, exc, graphs}] (one per event)
LastDump(k) == LET S == {j \in 1..(k - 1) : T.hist[j].op = "dump" /\ T.hist[j].path = T.hist[k].path} IN
               IF S = {} THEN 0 ELSE CHOOSE j \in S : \A i \in S : i <= j
HistA == [k \in DOMAIN T.hist |-> IF T.hist[k].op = "load" /\ LastDump(k) # 0 THEN ConcatGraphs(T.hist[LastDump(k)].texts, 1) ELSE [ok |-> TRUE, gs |-> <<>>]]
HistV(a) ==
    LET bad == {k \in DOMAIN T.hist : \/ ~T.steps[k].ok
                                       \/ (T.hist[k].op = "load" /\ a[k].ok /\ ~SameSeq(a[k].gs, T.steps[k].graphs))} IN
    IF bad # {} THEN LET k == CHOOSE x \in bad : \A y \in bad : x <= y IN
         <<"REJECT", (IF ~T.steps[k].ok THEN T.hist[k].op \o "-failed " \o T.steps[k].exc ELSE "load-does-not-return-the-last-dump") \o " @ " \o T.how>>
    ELSE Acc

A == CASE T.kind = "stream" -> StrA [] T.kind = "filehist" -> HistA [] T.kind = "bigstream" -> BigA [] OTHER -> DmpA
V == CASE T.kind = "stream" -> StrV(ra) [] T.kind = "filehist" -> HistV(ra) [] T.kind = "bigstream" -> BigV(ra) [] OTHER -> DmpV(ra)
Init == tid \in 1..Len(Traces) /\ step = 0 /\ ra = 0 /\ verdict = <<"pending", "">>
Compute1 == step = 0 /\ step' = 1 /\ ra' = A /\ UNCHANGED <<tid, verdict>>
Judge == step = 1 /\ step' = 2 /\ verdict' = V /\ UNCHANGED <<tid, ra>>
Spec == Init /\ [][Compute1 \/ Judge]_vars
Out == step = 2 => PrintT("V|" \o ToString(tid) \o "|" \o verdict[1] \o "|" \o verdict[2])
=============================================================================
