------------------------------- MODULE MC_Format -------------------------------
(* Bounded-exhaustive instance for property C01: every tree the generator can   *)
(* assemble from grammar-valid pieces (up to MaxBr branches, nesting MaxDepth)  *)
(* is formatted under every (indent, compact) of the instance, lexed and parsed *)
(* by the specification; TLC checks the round trip, the token-sequence          *)
(* invariance and the fixed point.  Each tree state fans out into one chain     *)
(* Format -> Lex -> Parse -> Reformat per option pair, so that every expensive  *)
(* value is computed once and held in a state variable.  With the Export        *)
(* invariant the same instance prints its trees for replay on the               *)
(* implementation.                                                              *)
EXTENDS Formatter
CONSTANTS MaxBr, MaxDepth, Small
VARIABLES tree, canon, phase, opt, txt, toks, res, txt2
vars == <<tree, canon, phase, opt, txt, toks, res, txt2>>
Vars == {"a", "b"}
StrC == "\"( ) / : ~ # \\\" x\""
Concepts == IF Small THEN {"x", NULL, StrC} ELSE {"x", NULL, StrC, "a", "x~1"}
RoleTexts == IF Small THEN {":r", ":", ":r-of~1"} ELSE {":r", ":", ":r-of~1", ":op1~e.2,3"}
StrB == "\"y\\\\\""                \* a string ending in an escaped backslash: the quote after it closes the string
AtomTexts == IF Small THEN {"x", StrC, StrB, "\"~\"~1", NULL, "a"} ELSE {"x", StrC, StrB, "x~e.2,3", "\"~\"~1", NULL, "a", "0"}
Metas == IF Small THEN {<<>>, <<<<"k", "">>>>, <<<<"snt", "The dog; (barked) \"loudly\" # now">>, <<"id", "x y">>>>}
         ELSE {<<>>, <<<<"id", "1">>>>, <<<<"k", "">>>>, <<<<"snt", "The dog; (barked) \"loudly\" # now">>, <<"id", "x y">>>>}
Indents == {NONE, 0 - 1, 0, 1, 3}

MaxD(t) == IF Len(t.br) = 0 THEN 0
           ELSE LET l == t.br[Len(t.br)] IN IF l.kind = "node" /\ l.val # NULL THEN l.d + 1 ELSE l.d
ConceptSlot(t, d) == IF Len(t.br) = 0 THEN d = 0
                     ELSE LET l == t.br[Len(t.br)] IN l.kind = "node" /\ l.val # NULL /\ d = l.d + 1
CanonOf(t) == TokKey(Lex(Fmt(t, NONE, FALSE), FALSE))
Idle == opt = <<>> /\ txt = "" /\ toks = <<>> /\ res = <<>> /\ txt2 = ""
Init == /\ \E v \in Vars \cup {NULL}, m \in Metas : tree = [top |-> v, br |-> <<>>, meta |-> m]
        /\ canon = <<>> /\ phase = "new" /\ Idle
\* the canonical token sequence of a tree is computed once, when the tree is complete
Canon == phase = "new" /\ phase' = "build" /\ canon' = CanonOf(tree) /\ UNCHANGED <<tree, opt, txt, toks, res, txt2>>
Grow(t2) == phase = "build" /\ tree.top # NULL /\ Len(tree.br) < MaxBr /\ tree' = t2 /\ phase' = "new"
            /\ UNCHANGED <<canon, opt, txt, toks, res, txt2>>
AddConcept == \E d \in 0..MaxD(tree), c \in Concepts :
                 ConceptSlot(tree, d) /\ Grow([tree EXCEPT !.br = Append(@, Br(d, "/", "atom", c))])
AddAtom == \E d \in 0..MaxD(tree), r \in RoleTexts, a \in AtomTexts :
                 Grow([tree EXCEPT !.br = Append(@, Br(d, r, "atom", a))])
AddNode == \E d \in 0..MaxD(tree), r \in RoleTexts, v \in Vars \cup {NULL} :
                 d < MaxDepth /\ Grow([tree EXCEPT !.br = Append(@, Br(d, r, "node", v))])
Format == phase = "build" /\ \E i \in Indents, c \in BOOLEAN :
             /\ opt' = <<i, c>> /\ txt' = Fmt(tree, i, c) /\ phase' = "fmt" /\ UNCHANGED <<tree, canon, toks, res, txt2>>
DoLex == phase = "fmt" /\ toks' = Lex(txt, FALSE) /\ phase' = "lex" /\ UNCHANGED <<tree, canon, opt, txt, res, txt2>>
DoParse == phase = "lex" /\ res' = Parse(toks) /\ phase' = "parse" /\ UNCHANGED <<tree, canon, opt, txt, toks, txt2>>
Reformat == phase = "parse" /\ res.ok /\ txt2' = Fmt(res.tree, opt[1], opt[2]) /\ phase' = "done"
            /\ UNCHANGED <<tree, canon, opt, txt, toks, res>>
Next == Canon \/ AddConcept \/ AddAtom \/ AddNode \/ Format \/ DoLex \/ DoParse \/ Reformat
Spec == Init /\ [][Next]_vars

Generated == phase = "build" => GrammarValidTree(tree)
RoundTrip == phase \in {"parse", "done"} => res.ok /\ res.tree = tree
SameTokens == phase \in {"lex", "parse", "done"} => TokKey(toks) = canon
FixedPoint == phase = "done" => txt2 = txt
\* what lies between the tokens of the text is blank space only
OnlyWhitespaceDiffers == phase = "lex" => LET ls == Lines(txt) IN \A n \in DOMAIN ls : TilesLine(ls[n], TokensOfLine(toks, n))
Export == phase = "build" => PrintT("X|" \o ToJson([tree |-> tree]))
=============================================================================
