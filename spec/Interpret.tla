------------------------------- MODULE Interpret -------------------------------
(***************************************************************************)
(* The documented reading of a tree (docs/structures.rst, notation.rst,     *)
(* layout docs): per node one instance triple (null concept, listed first,  *)
(* if none is written) and one triple per branch in depth-first order; an   *)
(* inverted role on a branch to a node or to another node's variable is     *)
(* deinverted once with source and target swapped (never under the no-op    *)
(* model); an inverted role on a constant is left as written.  Alignment    *)
(* suffixes are split off (string-aware) and reported as markers of the     *)
(* triple whose role or target they followed.  Layout markers: Push(v) on   *)
(* the triple of the branch that opens node v, one POP per closed node on   *)
(* the last triple emitted before the close.                                *)
(*                                                                          *)
(* A graph is [top, tr, epi]: epi[i] is the marker list of tr[i]; markers   *)
(* are [m |-> "push"|"pop"|"ralign"|"align", v].  The real marker map is    *)
(* keyed by triple value (first entry wins): see EpiView.                   *)
(* Ghost results (for the layout diagnostics, property C14): wnode[i] = the *)
(* variable of the node whose branch wrote triple i, winv[i] = the triple   *)
(* was written inverted, opened[i] = the nested node that branch opened.    *)
(***************************************************************************)
EXTENDS Model

(* ---- surface text: role~aln, atom~aln (string aware) ---- *)
SplitRole(text) ==
    LET p == IndexOf(text, "~", 1) IN
    IF p = 0 THEN <<text, "">> ELSE <<SubSeq(text, 1, p - 1), SubSeq(text, p + 1, Len(text))>>
SplitAtom(text) ==
    IF text = NULL THEN <<NULL, "">>
    ELSE IF StartsWith(text, "\"")
         THEN LET q == LastIndexOf(text, "\"", Len(text)) IN
              IF q < Len(text) /\ IndexOf(text, "~", q + 1) # 0   \* something after the closing quote
              THEN <<SubSeq(text, 1, q), SubSeq(text, q + 2, Len(text))>> ELSE <<text, "">>
         ELSE LET p == IndexOf(text, "~", 1) IN
              IF p = 0 THEN <<text, "">> ELSE <<SubSeq(text, 1, p - 1), SubSeq(text, p + 1, Len(text))>>
\* normal form of an alignment text: prefix kept, indices without leading zeros
RECURSIVE NormIdxList(_)
NormIdxList(x) == LET c == IndexOf(x, ",", 1) IN
                  IF c = 0 THEN ToString(ToNat(x, 1, 0))
                  ELSE ToString(ToNat(SubSeq(x, 1, c - 1), 1, 0)) \o "," \o NormIdxList(SubSeq(x, c + 1, Len(x)))
NormAln(a) == IF a = "" THEN ""
              ELSE IF Ch(a, 1) \in Letters
                   THEN (IF Len(a) >= 2 /\ Ch(a, 2) = "." THEN SubSeq(a, 1, 2) \o NormIdxList(SubSeq(a, 3, Len(a)))
                         ELSE SubSeq(a, 1, 1) \o NormIdxList(SubSeq(a, 2, Len(a))))
                   ELSE NormIdxList(a)
\* the documented parts of an alignment text: an optional one-letter prefix with an optional period, then the comma-separated indices
AlnPrefix(a) == IF a # "" /\ Ch(a, 1) \in Letters THEN (IF Len(a) >= 2 /\ Ch(a, 2) = "." THEN SubSeq(a, 1, 2) ELSE SubSeq(a, 1, 1)) ELSE ""
RECURSIVE SplitAtCommas(_)
SplitAtCommas(s) == LET c == IndexOf(s, ",", 1) IN IF c = 0 THEN <<s>> ELSE <<SubSeq(s, 1, c - 1)>> \o SplitAtCommas(SubSeq(s, c + 1, Len(s)))
AlnIndices(a) == SplitAtCommas(SubSeq(a, Len(AlnPrefix(a)) + 1, Len(a)))
Mk(kind, v) == [m |-> kind, v |-> v]
RoleEpis(a) == IF a = "" THEN <<>> ELSE <<Mk("ralign", NormAln(a))>>
AtomEpis(a) == IF a = "" THEN <<>> ELSE <<Mk("align", NormAln(a))>>
POPm == Mk("pop", "")

(* ---- flat trees ---- *)
NodeVars(t) == (IF t.top = NULL THEN {} ELSE {t.top})
               \cup {t.br[k].val : k \in {j \in DOMAIN t.br : t.br[j].kind = "node" /\ t.br[j].val # NULL}}
HasConceptAt(t, k, d) == k <= Len(t.br) /\ t.br[k].d = d /\ SplitRole(t.br[k].role)[1] = "/"
\* a node "has a concept" if any of its own branches is the concept role (only the first can be, in grammar-valid trees)
RECURSIVE NodeHasConcept(_, _, _)
NodeHasConcept(t, k, d) == IF k > Len(t.br) \/ t.br[k].d < d THEN FALSE
                           ELSE IF t.br[k].d = d /\ SplitRole(t.br[k].role)[1] \in {"/", ConceptRole} THEN TRUE
                           ELSE NodeHasConcept(t, k + 1, d)
Pops(n) == [i \in 1..n |-> POPm]
AddPops(epi, n) == IF n = 0 \/ Len(epi) = 0 THEN epi ELSE [epi EXCEPT ![Len(epi)] = @ \o Pops(n)]

\* accumulator of the walk
W0 == [tr |-> <<>>, epi |-> <<>>, wnode |-> <<>>, winv |-> <<>>, opened |-> <<>>]
Emit(w, trp, e, node, inv, op) ==
    [tr |-> Append(w.tr, trp), epi |-> Append(w.epi, e), wnode |-> Append(w.wnode, node),
     winv |-> Append(w.winv, inv), opened |-> Append(w.opened, op)]
ClosePops(w, n) == [w EXCEPT !.epi = AddPops(@, n)]

RECURSIVE Walk(_, _, _, _, _)
Walk(t, m, k, ctx, w) ==
    IF k > Len(t.br) THEN ClosePops(w, Len(ctx) - 1)
    ELSE
      LET b    == t.br[k]
          w1   == ClosePops(w, Len(ctx) - (b.d + 1))
          ctx1 == SubSeq(ctx, 1, b.d + 1)
          var  == ctx1[Len(ctx1)]
          ra   == SplitRole(b.role)
          role == IF ra[1] = "/" THEN ConceptRole ELSE ra[1]
      IN
      IF b.kind = "node" THEN
         LET nv  == b.val
             raw == <<var, role, nv>>
             trp == Deinvert(m, raw)
             e   == RoleEpis(ra[2]) \o <<Mk("push", nv)>>
             w2  == Emit(w1, trp, e, var, trp # raw, nv)
             \* a node without a written concept gets the null-concept instance triple first
             w3  == IF NodeHasConcept(t, k + 1, b.d + 1) THEN w2
                    ELSE Emit(w2, <<nv, ConceptRole, NULL>>, <<>>, nv, FALSE, NULL)
         IN Walk(t, m, k + 1, Append(ctx1, nv), w3)
      ELSE
         LET ta  == SplitAtom(b.val)
             raw == <<var, role, ta[1]>>
             trp == IF role # ConceptRole /\ IsInverted(m, role) /\ ta[1] \in NodeVars(t)
                    THEN Deinvert(m, raw) ELSE raw
         IN Walk(t, m, k + 1, ctx1, Emit(w1, trp, RoleEpis(ra[2]) \o AtomEpis(ta[2]), var, trp # raw, NULL))

Interpret(t, m) ==
    LET w0 == IF NodeHasConcept(t, 1, 0) THEN W0 ELSE Emit(W0, <<t.top, ConceptRole, NULL>>, <<>>, t.top, FALSE, NULL)
        w  == Walk(t, m, 1, <<t.top>>, w0)
    IN [top |-> t.top, tr |-> w.tr, epi |-> w.epi, wnode |-> w.wnode, winv |-> w.winv, opened |-> w.opened, meta |-> t.meta]

\* value-keyed marker map, first entry wins (as a Python dict filled in order keeps the first when later ones are ignored)
FirstIdx(tr, x) == CHOOSE i \in DOMAIN tr : tr[i] = x /\ \A j \in 1..(i - 1) : tr[j] # x
EpiView(g) == [i \in DOMAIN g.tr |-> g.epi[FirstIdx(g.tr, g.tr[i])]]
OnlyAligns(e) == SelectSeq(e, LAMBDA x : x.m \in {"ralign", "align"})
OnlyLayout(e) == SelectSeq(e, LAMBDA x : x.m \in {"push", "pop"})

(* ---- content and postconditions (properties C03, C05, C06, C12) ---- *)
Vars(g) == {g.tr[i][1] : i \in DOMAIN g.tr} \cup (IF g.top = NULL THEN {} ELSE {g.top})
Sources(g) == {g.tr[i][1] : i \in DOMAIN g.tr}
\* triples up to the model's single deinversion of inverted roles between variables
Canon(g, m) == [i \in DOMAIN g.tr |->
                 IF g.tr[i][2] # ConceptRole /\ g.tr[i][3] \in Vars(g) THEN Deinvert(m, g.tr[i]) ELSE g.tr[i]]
SameContent(g, h, m) == BagOf(Canon(g, m)) = BagOf(Canon(h, m)) /\ Vars(g) = Vars(h)
Adj(g, v) ==
    {g.tr[i][3] : i \in {j \in DOMAIN g.tr : g.tr[j][1] = v /\ g.tr[j][2] # ConceptRole /\ g.tr[j][3] \in Sources(g)}}
    \cup {g.tr[i][1] : i \in {j \in DOMAIN g.tr : g.tr[j][3] = v /\ g.tr[j][2] # ConceptRole}}
RECURSIVE Reach(_, _, _)
Reach(g, seen, frontier) ==
    IF frontier = {} THEN seen
    ELSE LET nxt == (UNION {Adj(g, v) : v \in frontier}) \ seen IN Reach(g, seen \cup nxt, nxt)
Connected(g, top) == Sources(g) \subseteq Reach(g, {top}, {top})
MustFail(g, top) == Len(g.tr) > 0 /\ (top \notin Vars(g) \/ ~Connected(g, top))
EncodesTo(g, top, m, t) == LET h == Interpret(t, m) IN h.top = top /\ SameContent([g EXCEPT !.top = top], h, m)

\* well-formed graphs: each variable has exactly one instance triple, triples pairwise distinct
WellFormedGraph(g) ==
    /\ \A v \in Sources(g) : Cardinality({i \in DOMAIN g.tr : g.tr[i][1] = v /\ g.tr[i][2] = ConceptRole}) = 1
    /\ \A i, j \in DOMAIN g.tr : i # j => g.tr[i] # g.tr[j]
    /\ \A i \in DOMAIN g.tr : g.tr[i][1] # NULL

\* well-formed trees (property C02): every variable defined once, denoted triples pairwise distinct,
\* roles in canonical inversion form, no inverted self-loop
WellFormedTree(t, m) ==
    LET g == Interpret(t, m)
        nodeBr == {k \in DOMAIN t.br : t.br[k].kind = "node"}
    IN /\ t.top # NULL
       /\ \A k \in nodeBr : t.br[k].val # NULL /\ t.br[k].val # t.top
       /\ \A k, l \in nodeBr : k # l => t.br[k].val # t.br[l].val
       /\ \A i, j \in DOMAIN g.tr : i # j => g.tr[i] # g.tr[j]
       /\ \A k \in DOMAIN t.br :
            LET r == SplitRole(t.br[k].role)[1] IN
            /\ r # ConceptRole
            /\ (r # "/" => PreNorm(m, r) = r)
            /\ (r = "/" => t.br[k].kind = "atom")
       /\ \A i \in DOMAIN g.tr : ~(g.winv[i] /\ g.tr[i][1] = g.tr[i][3])
\* the only normalisation a round trip may apply: an empty concept slot "(a /)" is written "(a)"
Norm(t) == [t EXCEPT !.br = SelectSeq(t.br, LAMBDA b : ~(b.role = "/" /\ b.val = NULL))]
\* the same tree with every alignment suffix in its own normal form (no leading zeros in the indices): what the library writes,
\* since a marker keeps its indices as numbers (finding F25)
NormRoleText(r) == IF r = "/" \/ SplitRole(r)[2] = "" THEN r ELSE SplitRole(r)[1] \o "~" \o NormAln(SplitRole(r)[2])
NormAtomText(v) == IF v = NULL \/ SplitAtom(v)[2] = "" THEN v ELSE SplitAtom(v)[1] \o "~" \o NormAln(SplitAtom(v)[2])
NormAlignments(t) == [t EXCEPT !.br = [k \in DOMAIN t.br |->
                        [t.br[k] EXCEPT !.role = NormRoleText(@), !.val = IF t.br[k].kind = "atom" THEN NormAtomText(@) ELSE @]]]
=============================================================================
